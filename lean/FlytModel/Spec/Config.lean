import FlytModel.Model.Config
/-!
# C19 as a decidable predicate on (scenario, observation)

The specification side never folds the setters. For each parameter it *searches* the step sequence
for the last step that sets it (`lastSome`), takes the documented default when there is none, and
asks that the observation be the one of a node carrying exactly these values. The search ignores the
form (option / builder) of a step altogether — that is the content of "configuration styles are
equivalent" — and only needs the order in which Go can execute the steps: constructor arguments
first, chained calls afterwards (`effective`).
-/
namespace Flyt.Config

/-- the value set by the last step (in list order) that sets one, if any -/
def lastSome {α : Type} (w : Step → Option α) : List Step → Option α
  | [] => none
  | s :: rest =>
    match lastSome w rest with
    | some a => some a
    | none => w s

/-- the order in which Go executes a mixed sequence: every constructor option is applied inside the
    constructor call, every builder method after it -/
def effective (steps : List Step) : List Step := steps.filter isOpt ++ steps.filter isBld

/-- "options precede builder calls": the sequence is already in execution order -/
def optsFirst : List Step → Bool
  | [] => true
  | s :: rest => if s.form = .opt then optsFirst rest else rest.all isBld

/-! ### which parameter a step sets, and to what (form-independent) -/

def setsMaxRetries (s : Step) : Option Int :=
  match s.setting with | .maxRetries n => some n | _ => none
def setsWait (s : Step) : Option Int :=
  match s.setting with | .wait d => some d | _ => none
def setsConc (s : Step) : Option Int :=
  match s.setting with | .batchConcurrency c => some c | _ => none
def setsEH (s : Step) : Option EH :=
  match s.setting with | .batchErrorHandling b => some (if b then .cont else .stop) | _ => none
def setsPrepFunc (k : Kind) (s : Step) : Option (Option Fn) :=
  match k, s.setting with | .node, .prepFn a => some (some ⟨s.tag, a⟩) | _, _ => none
def setsExecFunc (s : Step) : Option (Option Fn) :=
  match s.setting with | .execFn a => some (some ⟨s.tag, a⟩) | _ => none
def setsPostFunc (k : Kind) (s : Step) : Option (Option Fn) :=
  match k, s.setting with | .node, .postFn a => some (some ⟨s.tag, a⟩) | _, _ => none
def setsFbFunc (k : Kind) (s : Step) : Option (Option Fn) :=
  match k, s.setting with | .node, .fbFn => some (some ⟨s.tag, false⟩) | _, _ => none
def setsBatchPrep (k : Kind) (s : Step) : Option (Option Fn) :=
  match k, s.setting with | .batch, .prepFn a => some (some ⟨s.tag, a⟩) | _, _ => none
def setsBatchPost (k : Kind) (s : Step) : Option (Option Fn) :=
  match k, s.setting with | .batch, .postFn a => some (some ⟨s.tag, a⟩) | _, _ => none

/-- The domain of the property (DESIGN 5/C19, 7/B1). A plain node builder accepts every setting in
    both forms. A batch builder accepts the four scalar settings in both forms, and in builder form
    `WithPrepFunc`, `WithExecFunc`, `WithExecFuncAny`, `WithPostFunc`; it has no other function
    setter, and `NewBatchNode` ignores `CustomNodeOption`s by design. -/
def inDomain (k : Kind) (s : Step) : Bool :=
  match k with
  | .node => true
  | .batch =>
    match s.setting with
    | .maxRetries _ | .wait _ | .batchConcurrency _ | .batchErrorHandling _ => true
    | .prepFn false | .postFn false | .execFn _ => s.form == .bld
    | _ => false

/-- the configuration the property prescribes: last setting of each parameter, else the default
    (one attempt, no wait, concurrency 0 = sequential, error handling unset = "continue", no functions) -/
def lastWins (k : Kind) (l : List Step) : Node :=
  { base := { maxRetries := (lastSome setsMaxRetries l).getD 1
              wait := (lastSome setsWait l).getD 0
              batchConcurrency := (lastSome setsConc l).getD 0
              batchErrorHandling := (lastSome setsEH l).getD .unset }
    prepFunc := (lastSome (setsPrepFunc k) l).getD none
    execFunc := (lastSome setsExecFunc l).getD none
    postFunc := (lastSome (setsPostFunc k) l).getD none
    execFallbackFunc := (lastSome (setsFbFunc k) l).getD none
    batchPrepFunc := (lastSome (setsBatchPrep k) l).getD none
    batchPostFunc := (lastSome (setsBatchPost k) l).getD none }

/-- the four getter values the property prescribes, stated directly -/
def expectedGetters (l : List Step) : Getters :=
  { retries := (lastSome setsMaxRetries l).getD 1
    wait := (lastSome setsWait l).getD 0
    conc := (lastSome setsConc l).getD 0
    eh := match lastSome setsEH l with | some .stop => "stop" | _ => "continue" }

/-- **C19** on an observation: the getters show the last setting of each parameter (or the default),
    before and after further, unrelated builder calls (the probe functions), and everything observed
    — which functions ran, how many exec attempts, stop/continue, items in flight — is what a node
    configured with exactly the last-wins values shows. -/
def c19 (k : Kind) (steps : List Step) (o : Obs) : Bool :=
  let l := effective steps
  decide (o.g = expectedGetters l) && decide (o.g2 = expectedGetters l)
    && decide (o = observe k (lastWins k l))

/-- pool part of C19: a pool created with size ≤ 0 runs one task at a time, otherwise `size` -/
def c19Pool (size : Int) (hwm : Nat) : Bool :=
  if size ≤ 0 then hwm == 1 else decide ((hwm : Int) = size)

/-- a scenario exercises the interesting branch if some parameter is set more than once or the two
    forms are mixed -/
def nontrivial (k : Kind) (steps : List Step) : Bool :=
  let cnt (w : Step → Bool) := (steps.filter w).length
  (steps.any isOpt && steps.any isBld)
    || decide (cnt (fun s => (setsMaxRetries s).isSome) ≥ 2) || decide (cnt (fun s => (setsWait s).isSome) ≥ 2)
    || decide (cnt (fun s => (setsConc s).isSome) ≥ 2) || decide (cnt (fun s => (setsEH s).isSome) ≥ 2)
    || decide (cnt (fun s => (setsExecFunc s).isSome) ≥ 2)
    || decide (cnt (fun s => (setsPrepFunc k s).isSome || (setsBatchPrep k s).isSome) ≥ 2)
    || decide (cnt (fun s => (setsPostFunc k s).isSome || (setsBatchPost k s).isSome) ≥ 2)
    || decide (cnt (fun s => (setsFbFunc k s).isSome) ≥ 2)

/-! ### vocabulary of the theorems -/

/-- two sequences carry the same settings (and function tags) in the same order; forms may differ -/
def sameSettings (a b : List Step) : Prop :=
  a.map (fun s => (s.setting, s.tag)) = b.map (fun s => (s.setting, s.tag))

/-- rewrite every step in one form -/
def inForm (f : Form) (steps : List Step) : List Step := steps.map (fun s => { s with form := f })

/-- the effect of one step, in its own form, on a node of kind `k` that already exists:
    an option is what the constructor does with it (`NewNode`: `NodeOption` on the base node,
    `CustomNodeOption` on the custom node; `NewBatchNode`: `NodeOption` only), a builder step is the
    chained method. -/
def stepApply (k : Kind) (s : Step) (n : Node) : Node :=
  match s.form, k with
  | .bld, .node => nodeBuilderCall s n
  | .bld, .batch => batchBuilderCall s n
  | .opt, .node =>
    if s.setting.isNodeOption then { n with base := applyNodeOption s.setting n.base } else applyCustomOption s n
  | .opt, .batch =>
    if s.setting.isNodeOption then { n with base := applyNodeOption s.setting n.base } else n

end Flyt.Config
