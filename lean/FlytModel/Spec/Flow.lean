import FlytModel.Model.Flat
/-!
# Properties C01–C05, C10, C17, C18 as decidable predicates on (scenario, observation)

None of these predicates runs `runNode`/`flowLoop` (the model of `Flow.Exec`): they are evaluated on
the *implementation's* observation by the driver, and proved of the model's observation in
`Props/`. Leaf-level reference functions (`runLeaf`, `runBatch`) are used only as the oracle for
"the action this visit returns" where the property itself is parameterised by it (C03, C10).
-/
namespace Flyt.Spec
open Flyt

structure RunObs where
  trace : List Ev
  out : Outcome
  store : List Nat
  deriving DecidableEq, Repr, Inhabited

def evKey : Ev → NodeId × Nat
  | .prep n v _ => (n, v)
  | .exec n v _ _ => (n, v)
  | .wait n v _ _ _ => (n, v)
  | .fb n v _ _ => (n, v)
  | .post n v _ _ _ => (n, v)
  | .bprep n v _ => (n, v)
  | .bexec n v _ _ _ => (n, v)
  | .bwait n v _ _ _ _ => (n, v)
  | .bfb n v _ _ _ => (n, v)
  | .bpost n v _ _ _ => (n, v)

/-- group adjacent events of the same (node, visit) -/
def segments : List Ev → List ((NodeId × Nat) × List Ev)
  | [] => []
  | e :: t =>
    match segments t with
    | (k, g) :: r => if k = evKey e then (k, e :: g) :: r else (evKey e, [e]) :: (k, g) :: r
    | [] => [(evKey e, [e])]

def isPrepEv : Ev → Bool | .prep .. => true | _ => false
def isExecEv : Ev → Bool | .exec .. => true | _ => false
def isFbEv : Ev → Bool | .fb .. => true | _ => false
def isPostEv : Ev → Bool | .post .. => true | _ => false
def isBatchEv : Ev → Bool
  | .bprep .. => true | .bexec .. => true | .bwait .. => true | .bfb .. => true | .bpost .. => true
  | _ => false

def noWaits (l : List Ev) : List Ev := l.filter (fun e => !e.isWait)

def okVal {α} (o : Out α) : Option α := match o.res with | .ok x => some x | .error _ => none
def errOf {α} (o : Out α) : Option Nat := match o.res with | .ok _ => none | .error e => some e

/-- value `Run` holds after prep, according to the script -/
def prepValue (cfg : LeafCfg) (scr : LeafScript) : Option Val :=
  if cfg.prepS = .absent then some Val.nil else (okVal scr.prep).map (prepRet cfg.prepS)

structure Parts where
  preps : List Ev
  execs : List Ev
  fbs : List Ev
  posts : List Ev
  rest : List Ev

def split (seg : List Ev) : Parts :=
  let seg := noWaits seg
  let r1 := seg.dropWhile isPrepEv
  let r2 := r1.dropWhile isExecEv
  let r3 := r2.dropWhile isFbEv
  { preps := seg.takeWhile isPrepEv, execs := r1.takeWhile isExecEv, fbs := r2.takeWhile isFbEv,
    posts := r3.takeWhile isPostEv, rest := r3.dropWhile isPostEv }

/-- the exec-phase result (an attempt's or the fallback's), read off the observed events and the scripts -/
def produced (cfg : LeafCfg) (scr : LeafScript) (p : Parts) : Option Val :=
  match p.fbs with
  | _ :: _ => okVal scr.fb
  | [] =>
    if p.execs.isEmpty then
      (if cfg.execS = .absent ∨ cfg.effBudget = 0 then some Val.nil else none)
    else (okVal (scr.exec (p.execs.length - 1))).map (execRet cfg.execS)

/-- **C01** for the events of one visit of a leaf node. -/
def c01Visit (cfg : LeafCfg) (scr : LeafScript) (n v : Nat) (seg : List Ev) : Bool :=
  let p := split seg
  p.rest.isEmpty
  && (p.preps == if cfg.prepS = .absent then [] else [Ev.prep n v 0])
  && (match prepValue cfg scr with
      | none => p.execs.isEmpty && p.fbs.isEmpty && p.posts.isEmpty
      | some pv =>
        (p.execs == (List.range p.execs.length).map (fun k => Ev.exec n v k (execArg cfg.execS pv)))
        && decide (p.fbs.length ≤ 1)
        && (p.fbs.all fun e => match e with | .fb n' v' a _ => n' == n && v' == v && a == pv | _ => false)
        && (p.posts ==
              match produced cfg scr p with
              | some ev => if cfg.postS = .absent then [] else
                  [Ev.post n v 0 (postArgs cfg.postS pv ev).1 (postArgs cfg.postS pv ev).2]
              | none => []))

/-- **C01**, last sentence, for a run of a single leaf node: action xor error. -/
def c01Outcome (cfg : LeafCfg) (scr : LeafScript) (seg : List Ev) (out : Outcome) : Bool :=
  let p := split seg
  let reachedPost := (prepValue cfg scr).isSome && (produced cfg scr p).isSome
  match out with
  | .ok a =>
    reachedPost && a != ""
      && (if cfg.postS = .absent then a == defaultAction
          else match okVal scr.post with | some a' => a == norm a' | none => false)
  | .err _ => !(reachedPost && (cfg.postS = .absent || (okVal scr.post).isSome))
  | _ => false

/-- **C02** for the events of one visit (scenarios without cancellation, budget ≥ 1). -/
def c02Visit (cfg : LeafCfg) (scr : LeafScript) (seg : List Ev) : Bool :=
  let p := split seg
  let N := cfg.effBudget
  match prepValue cfg scr with
  | none => p.execs.isEmpty && p.fbs.isEmpty
  | some pv =>
    if N = 0 ∨ cfg.execS = .absent then true else
    let firstOk := (List.range N).find? (fun k => (okVal (scr.exec k)).isSome)
    let want := match firstOk with | some k => k + 1 | none => N
    p.execs.length == want
    && (p.fbs == if firstOk.isNone ∧ cfg.fb = .custom then
                   (match errOf (scr.exec (N - 1)) with
                    | some e => [Ev.fb (evKey (p.execs.headD default)).1 (evKey (p.execs.headD default)).2 pv (.user e)]
                    | none => [])
                 else [])
    && (match p.posts with
        | [Ev.post _ _ _ _ ev] =>
          (match firstOk with
           | some k => (okVal (scr.exec k)).map (fun x => (postArgs cfg.postS pv (execRet cfg.execS x)).2) == some ev
           | none => (okVal scr.fb).map (fun x => (postArgs cfg.postS pv x).2) == some ev)
        | _ => true)

/-- **C02**, the clauses that hold in EVERY scenario — whatever is cancelled when, also asynchronously during a
    retry wait: never more than `N` attempts; every attempt but the last one failed (none after a success); the
    fallback at most once, only by a node that has one, only after all `N` attempts were made and failed, with
    the prep value and the error of the last attempt. -/
def c02Bounds (cfg : LeafCfg) (scr : LeafScript) (seg : List Ev) : Bool :=
  let p := split seg
  let N := cfg.effBudget
  let m := p.execs.length
  decide (m ≤ N)
  && (List.range (m - 1)).all (fun k => (okVal (scr.exec k)).isNone)
  && decide (p.fbs.length ≤ 1)
  && (p.fbs.isEmpty
      || (cfg.fb == .custom && decide (1 ≤ N) && m == N && (List.range N).all (fun k => (okVal (scr.exec k)).isNone)
          && (match prepValue cfg scr, errOf (scr.exec (N - 1)) with
              | some pv, some e =>
                p.fbs.all fun ev => match ev with | .fb _ _ a er => a == pv && er == .user e | _ => false
              | _, _ => false)))

/-! ### scenario-level helpers -/

def scriptCancels (env : Env) (e : Ev) : Bool :=
  match e with
  | .prep n v _ => (env.leafBeh n v).prep.cancels
  | .exec n v k _ => ((env.leafBeh n v).exec k).cancels
  | .fb n v _ _ => (env.leafBeh n v).fb.cancels
  | .post n v _ _ _ => (env.leafBeh n v).post.cancels
  | .bprep n v _ => (env.batchBeh n v).prep.cancels
  | .bexec n v i k _ => (((env.batchBeh n v).item i).exec k).cancels
  | .bfb n v i _ _ => ((env.batchBeh n v).item i).fb.cancels
  | .bpost n v _ _ _ => (env.batchBeh n v).post.cancels
  | _ => false

/-- does this callback invocation end its run with a user error, according to its script? -/
def scriptFatal (env : Env) (e : Ev) : Option Nat :=
  match e with
  | .prep n v _ => errOf (env.leafBeh n v).prep
  | .exec n v k _ =>
    (match env.arena n with
     | .leaf cfg =>
       if k + 1 = cfg.effBudget ∧ cfg.fb ≠ .custom then errOf ((env.leafBeh n v).exec k) else none
     | _ => none)
  | .fb n v _ _ => errOf (env.leafBeh n v).fb
  | .post n v _ _ _ => errOf (env.leafBeh n v).post
  | .bprep n v _ => errOf (env.batchBeh n v).prep
  | .bpost n v _ _ _ => errOf (env.batchBeh n v).post
  | _ => none

/-- **C04** (no cancellation in the scenario): the run fails iff some callback on its path ended in
    failure; then that callback is the last one invoked and the error is that very error. -/
def c04 (env : Env) (o : RunObs) : Bool :=
  let tr := noWaits o.trace
  match tr.findIdx? (fun e => (scriptFatal env e).isSome) with
  | some i =>
    i + 1 == tr.length
    && (match (tr.getD i default |> scriptFatal env) with
        | some u => o.out == .err (.user u)
        | none => false)
  | none =>
    (match o.out with
     | .ok _ => true
     | .err (.fw .noStart) => true          -- a flow without a start node: the only non-callback failure
     | _ => false)

/-- **C05** — see `Props/C05.lean` for the exact reading.
    `ref` is the observation of the *same scenario with no cancellation at all*. -/
def c05 (env : Env) (ctx0 : Ctx) (o : RunObs) (ref : RunObs) : Bool :=
  let tr := noWaits o.trace
  match ctx0 with
  | .done k => tr.isEmpty && o.out == .err (.ctx k)
  | .live =>
    match tr.findIdx? (scriptCancels env) with
    | none => true
    | some j =>
      let c := tr.getD j default
      let after := tr.drop (j + 1)
      -- after the cancelling callback only the fallback / post of the very same visit may still run
      -- (a batch node's own later callbacks are judged by C11, not here)
      after.all (fun e => evKey e == evKey c && (isFbEv e || isPostEv e || isBatchEv e))
      && (match o.out with
          | .ok _ => o == ref || isBatchEv c         -- not cut short: identical to the uncancelled run
                                                     -- (cancellation inside a batch node: judged by C11)
          | .err (.ctx k) => k == env.kind
          | .err (.user u) => (tr.getLast?.bind (scriptFatal env)) == some u
          | _ => false)

/-- **C05** for a cancellation that arrives ASYNCHRONOUSLY while `Run` waits between two attempts of a leaf node
    (`waitCancel (j+1)` of the visit's script, a wait configured, budget left after the failed attempt `j`): attempt
    `j` is the last event of the whole trace — no new attempt, no fallback, no post, no further node — and the run
    reports the context's error. -/
def c05Wait (env : Env) (o : RunObs) : Bool :=
  let tr := noWaits o.trace
  (List.range tr.length).all fun i =>
    match tr.getD i default with
    | .exec n v j _ =>
      (match env.arena n with
       | .leaf cfg =>
         let scr := env.leafBeh n v
         if scr.waitCancel (j + 1) && decide (cfg.effWait > 0) && decide (j + 1 < cfg.effBudget)
            && (errOf (scr.exec j)).isSome && !(scr.exec j).cancels && !(scr.prep.cancels) then
           i + 1 == tr.length && o.out == .err (.ctx env.kind)
         else true
       | _ => true)
    | _ => true

/-- **C11** for a batch node inside a flow: once a callback of a batch node's visit has cancelled the context,
    no event of any other visit follows — the batch still finishes (post once), then the flow stops: the run
    terminates instead of starting further nodes or looping. -/
def c11Flow (env : Env) (ctx0 : Ctx) (o : RunObs) : Bool :=
  let tr := noWaits o.trace
  match ctx0 with
  | .done _ => true
  | .live =>
    match tr.findIdx? (scriptCancels env) with
    | none => true
    | some j =>
      let c := tr.getD j default
      !isBatchEv c || (tr.drop (j + 1)).all (fun e => evKey e == evKey c)

/-- **C18** -/
def c18 (o : RunObs) : Bool :=
  match o.out with
  | .ok a => a != ""
  | .both .. => false
  | _ => true

/-- visit sequence of a trace -/
def visitSeq (tr : List Ev) : List (NodeId × Nat) := (segments (noWaits tr)).map (·.1)

/-- action a visit of a leaf / batch node returns when run on a live context (oracle for routing) -/
def visitAction (env : Env) (n : NodeId) (v : Nat) : Option Action :=
  match env.arena n with
  | .leaf cfg => (match (runLeaf env.kind n v 0 cfg (env.leafBeh n v) .live).2.2 with | .ok a => some a | _ => none)
  | .batch cfg => (match (runBatch env.kind n v 0 cfg (env.batchBeh n v) .live).2.2 with | .ok a => some a | _ => none)
  | .flow .. => none

/-- **C03**: the unique path through a *flat* flow (all nodes leaves/batches) that the connection
    list (most recent connection wins) and the returned actions determine. `vis` = visit counters. -/
def specPath (env : Env) (ops : List ConnOp) : Nat → NodeId → (NodeId → Nat) → List (NodeId × Nat) × Option Action
  | 0, _, _ => ([], none)
  | fuel + 1, cur, vis =>
    let v := vis cur
    match visitAction env cur v with
    | none => ([(cur, v)], none)
    | some a =>
      match next ops cur a with
      | some (some nxt) =>
        let (p, r) := specPath env ops fuel nxt (fun m => if m = cur then vis m + 1 else vis m)
        ((cur, v) :: p, r)
      | _ => ([(cur, v)], some a)

def isFlatFlow (env : Env) (ops : List ConnOp) (start : NodeId) : Bool :=
  (start :: (ops.map (·.src) ++ ops.filterMap (·.dst))).all fun n =>
    match env.arena n with | .flow .. => false | _ => true

/-- C03 on a run of root flow `root` (no cancellation, flat flow). -/
def c03 (env : Env) (root : NodeId) (vis : NodeId → Nat) (fuel : Nat) (o : RunObs) : Bool :=
  match env.arena root with
  | .flow (some s) ops =>
    if isFlatFlow env ops s then
      let (p, r) := specPath env ops fuel s vis
      visitSeq o.trace == p
      && o.store == (p.filter fun (n, _) =>
            match env.arena n with | .leaf c => c.prepS != .absent | _ => true).map (·.1)
      && (match r with
          | some a => o.out == .ok (norm a)
          | none => (match o.out with | .err _ => true | _ => false))
    else true
  | _ => true

/-- **C18**, last clause, on a run of a *flat* root flow without cancellation: whenever a visit ends with the
    default action (its post returned `""` or `"default"`) and the table connects `(node, "default")` to a node,
    that node is the next one visited — "a connection on the default action is always followed". -/
def c18Followed (env : Env) (root : NodeId) (o : RunObs) : Bool :=
  match env.arena root with
  | .flow (some s) ops =>
    if isFlatFlow env ops s then
      let vs := visitSeq o.trace
      (List.range vs.length).all fun i =>
        let (n, v) := vs.getD i (0, 0)
        match visitAction env n v with
        | some a =>
          if a == defaultAction then
            (match next ops n a with
             | some (some d) => decide (i + 1 < vs.length) && (vs.getD (i + 1) (0, 0)).1 == d
             | _ => true)
          else true
        | none => true
    else true
  | _ => true

/-- **C10**: the observation equals that of the flattened machine. -/
def c10 (o : RunObs) (flat : RunObs) : Bool := o == flat

/-- **C17** for one visit of a function-style node: payloads pass between the phases unchanged.
    Stated directly on what the user functions observe (`Result`s for Result-style, plain values for
    Any-style), for payloads that are not themselves `flyt.Result`s. -/
def c17Visit (cfg : LeafCfg) (scr : LeafScript) (seg : List Ev) : Bool :=
  let p := split seg
  -- the payload prep handed out: for Result-style the `Value()` of the returned Result
  let prepPayload : Option Val :=
    if cfg.prepS = .absent then some Val.nil else
      (okVal scr.prep).map fun x => if cfg.prepS = .res then (toResult x).valueOf else x
  match prepPayload with
  | none => true
  | some pv =>
    -- exec sees the prep payload
    (p.execs.all fun e =>
      match e with
      | .exec _ _ _ a =>
        (match cfg.execS with
         | .res => a == (newResult pv).box
         | _ => a == pv)
      | _ => false)
    -- post sees the prep payload, and exec's result: its value, or its error state, never re-wrapped
    && (p.posts.all fun e =>
      match e with
      | .post _ _ _ a b =>
        let execOut : Option Val :=
          match p.fbs with
          | _ :: _ => none
          | [] => if p.execs.isEmpty then none else okVal (scr.exec (p.execs.length - 1))
        (match cfg.postS with | .res => a == (newResult pv).box | _ => a == pv)
        && (match execOut with
            | none => true
            | some x =>
              -- what the exec function returned, as a Result
              let r : Result := if cfg.execS = .res then toResult x else newResult x
              (match cfg.postS with
               | .res => b == r.box                       -- same value / same error, wrapped exactly once
               | .any => b == r.valueOf
               | _ => if r.isError then b == r.box else b == r.valueOf))
      | _ => false)

/-- **C17**, the clause `c17Visit` leaves open when a fallback event is present: if the LAST exec attempt of the visit returned
    without an error (a value — also an error `Result` handed on as a value), post receives THAT, whether or not a fallback was
    invoked in between (on the real code none is: a fallback is only ever called after an attempt that returned an error, so on
    every trace of the unchanged code this predicate says what `c17Visit` says; it is evaluated on the model's own observation
    too — `specModel` — and has no bridge theorem). -/
def c17ExecKept (cfg : LeafCfg) (scr : LeafScript) (seg : List Ev) : Bool :=
  let p := split seg
  if p.execs.isEmpty then true else
  match okVal (scr.exec (p.execs.length - 1)) with
  | none => true
  | some x =>
    let r : Result := if cfg.execS = .res then toResult x else newResult x
    p.posts.all fun e =>
      match e with
      | .post _ _ _ _ b =>
        (match cfg.postS with
         | .res => b == r.box
         | .any => b == r.valueOf
         | _ => if r.isError then b == r.box else b == r.valueOf)
      | _ => false

/-- **C17**, when the FALLBACK produced the exec-phase result: post receives the prep payload and the value the
    fallback returned, seen through post's style (wrapped once for a Result-style post, as it is for the others) —
    this run's value, not anything an earlier run or attempt left behind. -/
def c17Fallback (cfg : LeafCfg) (scr : LeafScript) (seg : List Ev) : Bool :=
  let p := split seg
  match p.fbs, prepValue cfg scr, okVal scr.fb with
  | _ :: _, some pv, some x =>
    p.posts.all fun e =>
      match e with
      | .post _ _ _ a b => a == (postArgs cfg.postS pv x).1 && b == (postArgs cfg.postS pv x).2
      | _ => false
  | _, _, _ => true

end Flyt.Spec
