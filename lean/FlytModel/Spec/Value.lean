import FlytModel.Model.Value
/-!
# Property C15 as a decidable predicate on (scenario, observation)

"Typed accessors are total, mutually consistent and faithful."  The predicate never calls an
accessor of the model (`asX`, `asT`, `getX`, `toSlice`, `ifaceEq`): it is evaluated by the driver on what
the *implementation* did, and proved of the model's observation in `Props/C15.lean`.

For one accessor family with zero value `z`, default `d` and expected outcome `e`
(`some x` = the conversion is documented to succeed and Go's conversion of the value is `x`):

* `total`      — none of the six non-Must calls panicked;
* `consistent` — `AsXOr d`, `MustX`, `store.GetX`, `store.GetXOr d` are what `AsX` says
                 (`Must` panics iff `AsX` reports failure; a failing `AsX` returns the zero value;
                 a missing key yields the zero value / the default);
* `faithful`   — `AsX` succeeds iff `e` is `some _`, and then returns it.
-/
namespace Flyt.Value.Spec
open Flyt Flyt.Value

/-- the source types the documentation of `AsInt` / `GetInt` names -/
def intSources : List Basic :=
  [.int, .int8, .int16, .int32, .int64, .uint, .uint8, .uint16, .uint32, .uint64, .float32, .float64]

/-- the source types of `AsFloat64` / `GetFloat64` -/
def floatSources : List Basic :=
  [.float64, .float32, .int, .int8, .int16, .int32, .int64, .uint, .uint8, .uint16, .uint32, .uint64]

def total {α} (o : FamObs α) : Bool :=
  !o.as_.isPanic && !o.or_.isPanic && !o.get.isPanic && !o.getOr.isPanic
    && !o.getMiss.isPanic && !o.getOrMiss.isPanic

def consistent {α} [DecidableEq α] (z d : α) (o : FamObs α) : Bool :=
  match o.as_ with
  | .panic => false
  | .ok (x, ok) =>
    o.or_ == .ok (if ok then x else d)
      && o.must == (if ok then .ok x else .panic)
      && o.get == .ok (if ok then x else z)
      && o.getOr == .ok (if ok then x else d)
      && o.getMiss == .ok z
      && o.getOrMiss == .ok d
      && (ok || x == z)

/-- `nf` is the reading of a result that the property speaks about (for slices: the elements, so
    that a nil and an empty slice are not told apart; the identity otherwise) -/
def faithful {α β} [DecidableEq β] (nf : α → β) (z : α) (e : Option α) (o : FamObs α) : Bool :=
  match o.as_ with
  | .panic => false
  | .ok (x, ok) => ok == e.isSome && nf x == nf (e.getD z)

def famOK {α β} [DecidableEq α] [DecidableEq β] (nf : α → β) (z d : α) (e : Option α) (o : FamObs α) : Bool :=
  total o && consistent z d o && faithful nf z e o

/-! ### expected outcomes: documented source types and Go's conversion -/

def expString : GoVal → Option String
  | .str t s => if t = tString then some s else none
  | _ => none

def expBool : GoVal → Option Bool
  | .bool t b => if t = tBool then some b else none
  | _ => none

def expMap : GoVal → Option MapV
  | .map t id => if t = tMapSA then some id else none
  | _ => none

/-- `int(v)`: exact for the integer types; Go's own (the parameter) for the two float types -/
def expInt (c : Conv) : GoVal → Option (Option Int)
  | .int (.basic b) n => if intSources.contains b then some (some (wrap64 n)) else none
  | .float (.basic b) bits =>
    if intSources.contains b then some (c.f2i (b == .float32) bits) else none
  | _ => none

/-- `float64(v)` -/
def expFloat (c : Conv) : GoVal → Option Nat
  | .float (.basic b) bits =>
    if b = .float64 then some bits else if floatSources.contains b then some (c.f32to64 bits) else none
  | .int (.basic b) n => if floatSources.contains b then some (c.i2f n) else none
  | _ => none

/-- what the slice conversion utility is specified to return: nil ↦ no elements, a slice ↦ its
    elements in order, anything else ↦ the value itself as the only element -/
def specElems : GoVal → List GoVal
  | .nil => []
  | .slice _ isNil elems => if isNil then [] else elems.toList
  | v => [v]

def elemsOf (s : SliceV) : List GoVal := s.getD []

/-- `ToSlice` did not panic and returned the specified elements -/
def toSliceOK (v : GoVal) (o : Ret SliceV) : Bool :=
  match o with
  | .panic => false
  | .ok s => elemsOf s == specElems v

/-- expected outcome of `AsSlice`, *relative to what `ToSlice` was observed to return* -/
def expSlice (v : GoVal) (o : Ret SliceV) : Option SliceV :=
  match o with
  | .panic => none
  | .ok s => if v.kind == .slice then some s else none

/-! ### the generic accessors -/

/-- is `T` the dynamic type of the value (for `T = any`: is there a value at all)? -/
def expAs (t : GoType) (v : GoVal) : Bool :=
  v != .nil && (t == .any || v.typeOf? == some t)

/-- one instantiation: `As[T]` did not panic, succeeds exactly when the value has type `T`, then returns
    the value itself and otherwise the zero value of `T`; `MustAs[T]` panics iff `As[T]` fails and
    otherwise returns the same value -/
def genOK1 (t : GoType) (v : GoVal) (o : GenObs) : Bool :=
  match o.1 with
  | .panic => false
  | .ok (x, ok) =>
    ok == expAs t v && x == (if ok then v else zeroOf t) && o.2 == (if ok then .ok x else .panic)

def genOK (v : GoVal) (os : List GenObs) : Bool :=
  os.length == genTargets.length && (genTargets.zip os).all fun p => genOK1 p.1 v p.2

structure Parts where
  str : Bool
  int : Bool
  flt : Bool
  bool : Bool
  slice : Bool
  map : Bool
  gen : Bool
  toSlice : Bool
  deriving DecidableEq, Repr

def parts (sc : Scenario) (o : Obs) : Parts :=
  { str := famOK id "" sc.d.s (expString sc.v) o.str
    int := famOK id (some 0) (some sc.d.i) (expInt sc.conv sc.v) o.int
    flt := famOK id 0 sc.d.f (expFloat sc.conv sc.v) o.flt
    bool := famOK id false sc.d.b (expBool sc.v) o.bool
    slice := famOK elemsOf none sc.d.sl (expSlice sc.v o.toSlice) o.slice
    map := famOK id none sc.d.m (expMap sc.v) o.map
    gen := genOK sc.v o.gen
    toSlice := toSliceOK sc.v o.toSlice }

def Parts.all (p : Parts) : Bool := p.str && p.int && p.flt && p.bool && p.slice && p.map && p.gen && p.toSlice

/-- property C15 on one scenario -/
def c15 (sc : Scenario) (o : Obs) : Bool := (parts sc o).all

/-- does the scenario exercise an interesting branch: some accessor succeeds, or the value is one
    on which an interface comparison would misbehave (non-comparable type, NaN inside) -/
def nontrivial (sc : Scenario) (_o : Obs) : Bool :=
  sc.v != .nil

end Flyt.Value.Spec
