import FlytModel.Model.Wait
/-!
# Property C20 (retry wait honoured between attempts, interruptible) as a decidable predicate
on (scenario, observation).

The observation is a callback trace *with wait events*: `Ev.wait n v k dur true` = "between the end
of attempt k-1 and the start of attempt k at least `dur` elapsed", `Ev.wait n v k dur false` = "a
cancellation arrived while the run was waiting before attempt k and the run returned promptly".
(For the implementation these events are measured by the harness with the monotonic clock; for the
model they are emitted by `attempts`.)

Nothing here runs `attempts` / `runLeaf` / `runItem`: the predicates walk the observed events and
consult the scenario's scripts only as the *oracle* (which attempts fail, when the cancellation
arrives).
-/
namespace Flyt.Spec
open Flyt

/-- the retry loop's events of one node visit / one batch item, reduced to what C20 talks about -/
inductive AEv
  | ex (k : Nat)                       -- attempt k started
  | wt (k dur : Nat) (fired : Bool)    -- the wait before attempt k
  deriving DecidableEq, Repr, Inhabited

/-- events of a plain node's visit -/
def leafAEv : Ev → Option AEv
  | .exec _ _ k _ => some (.ex k)
  | .wait _ _ k d f => some (.wt k d f)
  | _ => none

/-- events of item `i` of a batch node's visit -/
def itemAEv (i : Nat) : Ev → Option AEv
  | .bexec _ _ j k _ => if j = i then some (.ex k) else none
  | .bwait _ _ j k d f => if j = i then some (.wt k d f) else none
  | _ => none

/-- The oracle "the run reaches the wait before attempt `k` and the cancellation wins there":
    attempt k-1 failed without cancelling the context itself, budget remains, a wait is configured
    and the asynchronous cancellation is scripted for this wait. -/
def stopAt (w budget : Nat) (exec : Nat → Out Val) (wc : Nat → Bool) (k : Nat) : Bool :=
  decide (0 < k) && (match (exec (k - 1)).res with | .error _ => true | .ok _ => false)
    && !(exec (k - 1)).cancels && decide (k < budget) && decide (0 < w) && wc k

/-- **The shape C20 prescribes for a retry loop's event stream**, from attempt `k` on, with wait `w`:

* attempt 0 is not preceded by a wait; with `w = 0` there are no waits at all;
* with `w > 0` every attempt `k > 0` is immediately preceded by `wt k w true`;
* a fired wait is immediately followed by the attempt it precedes (so none follows the last attempt);
* an interrupted wait (`wt k w false`) ends the stream;
* the stream may not simply end before attempt `k` when the oracle says the wait before `k` is
  reached and cancelled (`stop k`): then it must end with the interrupted wait. -/
def waitStream (w : Nat) (stop : Nat → Bool) : Nat → List AEv → Bool
  | k, [] => k == 0 || !stop k
  | k, .ex j :: t => (j == k && (k == 0 || w == 0)) && waitStream w stop (k + 1) t
  | k, .wt j d f :: t =>
    (j == k && decide (0 < k) && decide (0 < w) && d == w) &&
      (match f, t with
       | false, [] => true
       | true, .ex j' :: t' => j' == k && waitStream w stop (k + 1) t'
       | _, _ => false)

/-- a wait fired iff the asynchronous cancellation was not scripted for it -/
def firedIff (wc : Nat → Bool) (s : List AEv) : Bool :=
  s.all fun e => match e with | .wt k _ f => f == !wc k | .ex _ => true

/-- the stream ends with an interrupted wait -/
def endsCut (s : List AEv) : Bool :=
  match s.getLast? with
  | some (.wt _ _ false) => true
  | _ => false

/-- in the raw trace every fired wait is immediately followed by the attempt it precedes -/
def firedWaitsAdjacent : List Ev → Bool
  | [] => true
  | .wait n v k _ true :: t =>
    (match t with | .exec n' v' k' _ :: _ => n' == n && v' == v && k' == k | _ => false) && firedWaitsAdjacent t
  | .bwait n v i k _ true :: t =>
    (match t with | .bexec n' v' i' k' _ :: _ => n' == n && v' == v && i' == i && k' == k | _ => false)
      && firedWaitsAdjacent t
  | _ :: t => firedWaitsAdjacent t

/-- C20 for the retry-loop stream of one visit / item -/
def c20Stream (w budget : Nat) (exec : Nat → Out Val) (wc : Nat → Bool) (s : List AEv) : Bool :=
  waitStream w (stopAt w budget exec wc) 0 s && firedIff wc s

/-- **C20 for a run of a single (non-batch, non-flow) node**: `tr` is the run's trace, `out` its outcome. -/
def c20Leaf (kind : CtxKind) (cfg : LeafCfg) (scr : LeafScript) (tr : List Ev) (out : Outcome) : Bool :=
  let s := tr.filterMap leafAEv
  c20Stream cfg.effWait cfg.effBudget scr.exec scr.waitCancel s
  && firedWaitsAdjacent tr
  && (!endsCut s || out == .err (.ctx kind))

/-- **C20 for item `i` of a batch node's run**: `slot` is what post saw for the item (if post ran). -/
def c20Item (kind : CtxKind) (cfg : BatchCfg) (scr : ItemScript) (i : Nat) (tr : List Ev) (slot : Option Val) : Bool :=
  let s := tr.filterMap (itemAEv i)
  c20Stream cfg.wait cfg.budget scr.exec scr.waitCancel s
  && (!endsCut s || match slot with | some x => x == (newErrorResult (.ctx kind)).box | none => true)

/-- slots seen by post (last `bpost` event of the trace) -/
def postSlots (tr : List Ev) : Option (List Val) :=
  tr.foldl (fun acc e => match e with | .bpost _ _ _ _ sl => some sl | _ => acc) none

/-- **C20 for a batch node's run** with `nItems` items; `ordered` = the trace order is meaningful
    (sequential or one worker), so fired waits must also be adjacent to their attempts in it. -/
def c20Batch (kind : CtxKind) (cfg : BatchCfg) (scr : BatchScript) (nItems : Nat) (ordered : Bool) (tr : List Ev) : Bool :=
  (List.range nItems).all (fun i =>
    c20Item kind cfg (scr.item i) i tr ((postSlots tr).bind fun sl => sl[i]?))
  && (!ordered || firedWaitsAdjacent tr)

/-- does the trace contain a wait event at all (non-triviality) -/
def hasWait (tr : List Ev) : Bool := tr.any Ev.isWait

end Flyt.Spec
