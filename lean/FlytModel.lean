import FlytModel.Core
import FlytModel.Model.Run
import FlytModel.Model.Batch
import FlytModel.Model.Flow
import FlytModel.Model.Flat
import FlytModel.Codec
import FlytModel.Spec.Flow
