import Lean.Data.Json
import FlytModel.Spec.Wait
import FlytModel.Codec
import Driver.FlowFam
/-!
# Driver, family `wait` (property C20): one run of a single node or of a batch node in real time.

The scenario carries the node configuration and scripts of the `flow` family (same JSON shapes), plus
what only matters in real time: how long each exec callback sleeps before returning, the generous
upper limits the harness compares against, and the watchdog.  The observation is a callback trace
*with wait events* (measured by the harness: `…:1` = the gap before the attempt was at least the
configured wait, `…:0` = the run was waiting, got cancelled and returned promptly), the outcome, and
`within` (the whole run stayed below the scenario's upper limit).
-/
open Lean Flyt Flyt.Codec Flyt.Spec

namespace Driver.WaitFam
open Driver.FlowFam (LeafCfgJ LeafScriptJ BatchCfgJ BatchScriptJ leafCfgOf leafScriptOf batchCfgOf batchScriptOf)

structure ScJ where
  kind : String
  leaf : Option LeafCfgJ := none
  leafScript : Option LeafScriptJ := none
  batch : Option BatchCfgJ := none
  batchScript : Option BatchScriptJ := none
  sleeps : List (List Nat) := []     -- [item][attempt]: ms the exec callback sleeps before returning
  limitMs : Nat := 0                 -- 0 = none; else the whole run must not take longer
  promptMs : Nat := 0                -- a run interrupted in a wait must return within this after the cancel
  cancelDelayMs : Nat := 0
  watchMs : Nat := 0
  tag : String := ""
  deriving FromJson, ToJson

structure ObsJ where
  trace : List String
  out : String
  within : Bool
  deriving FromJson, ToJson

structure Obs where
  trace : List Ev
  out : Outcome
  within : Bool
  deriving DecidableEq

def obsToJ (o : Obs) : ObsJ := { trace := o.trace.map evStr, out := outStr o.out, within := o.within }

def itemOf : Ev → Option Nat
  | .bexec _ _ i _ _ => some i
  | .bwait _ _ i _ _ _ => some i
  | .bfb _ _ i _ _ => some i
  | _ => none

/-- canonical order for a batch run on ≥ 2 workers: the item events (between `bprep` and `bpost`)
    grouped by item, each item's own order kept (stable sort) -/
def canon (tr : List Ev) : List Ev :=
  let head := tr.filter (fun e => match e with | .bprep .. => true | _ => false)
  let tail := tr.filter (fun e => match e with | .bpost .. => true | _ => false)
  let mid := tr.filter (fun e => (itemOf e).isSome)
  let rest := tr.filter (fun e => match e with | .bprep .. => false | .bpost .. => false | e => (itemOf e).isNone)
  head ++ mid.mergeSort (fun a b => decide ((itemOf a).getD 0 ≤ (itemOf b).getD 0)) ++ rest ++ tail

def sleepOf (sleeps : List (List Nat)) (i k : Nat) : Nat := (sleeps.getD i []).getD k 0

/-- the least time the model's run needs: fired waits plus scripted exec sleeps (of item `i` only, if given) -/
def minTime (sleeps : List (List Nat)) (only : Option Nat) (tr : List Ev) : Nat :=
  (tr.map fun e =>
    match e with
    | .wait _ _ _ d true => d
    | .exec _ _ k _ => sleepOf sleeps 0 k
    | .bwait _ _ i _ d true => if only.all (· == i) then d else 0
    | .bexec _ _ i k _ => if only.all (· == i) then sleepOf sleeps i k else 0
    | _ => 0).sum

def hasStar (s : String) : Bool := s.endsWith "*"

structure Verdict where
  agree : Bool
  spec : Bool
  specModel : Bool
  nontrivial : Bool
  model : ObsJ
  batchCancel : Bool := false   -- a batch run with an asynchronous cancellation during a retry wait (also judged as C11)
  c02 : Bool := true            -- C02's bounds (attempts ≤ N, none after a success, fallback only after N failures) on the implementation's trace
  c02Model : Bool := true

/-- C02's cancellation-proof bounds per item of a batch trace: never more than `N` attempts, none after a success, the fallback at
    most once and only by a node with a custom fallback after all `N` attempts were made and failed. -/
def c02BatchBounds (cfg : BatchCfg) (scr : BatchScript) (n : Nat) (tr : List Ev) : Bool :=
  (List.range n).all fun i =>
    let m := (tr.filter fun e => match e with | .bexec _ _ j _ _ => j == i | _ => false).length
    let f := (tr.filter fun e => match e with | .bfb _ _ j _ _ => j == i | _ => false).length
    let failed (k : Nat) : Bool := match ((scr.item i).exec k).res with | .ok _ => false | .error _ => true
    decide (m ≤ cfg.budget) && (List.range (m - 1)).all failed && decide (f ≤ 1)
    && (f == 0 || (cfg.fb == .custom && m == cfg.budget && (List.range cfg.budget).all failed))


def process (sc : ScJ) (obs : ObsJ) : Except String Verdict := do
  let kind ← match sc.kind with
    | "canceled" => pure CtxKind.canceled | "deadline" => pure CtxKind.deadline
    | "cause" => pure CtxKind.canceled | "fardeadline" => pure CtxKind.canceled | "child" => pure CtxKind.canceled | "neardeadline" => pure CtxKind.deadline
    | k => throw s!"bad kind {k}"
  -- what the implementation did
  let implTrace ← match obs.trace.mapM parseEv with | some t => pure t | none => throw "bad trace in observation"
  -- "H" = the watchdog fired, "P" = a panic was recovered: never a legal outcome, never parsed as one
  let abnormal := obs.out == "H" || obs.out == "P"
  let implOut ← if abnormal then pure Outcome.fuel else
    match parseOut obs.out with | some o => pure o | none => throw s!"bad outcome {obs.out}"
  match sc.leaf, sc.leafScript, sc.batch, sc.batchScript with
  | some lc, some ls, none, none =>
    let cfg ← match leafCfgOf lc with | some c => pure c | none => throw "bad leaf cfg"
    let scr ← match leafScriptOf ls with | some s => pure s | none => throw "bad leaf script"
    if ls.n != 0 || ls.v != 0 then throw "leaf script must be for node 0 visit 0"
    if hasStar ls.prep || hasStar ls.fb || hasStar ls.post || ls.exec.any hasStar then
      throw "synchronous cancellation is outside the wait family's domain"
    let r := runLeaf kind 0 0 0 cfg scr .live
    let m : Obs := { trace := r.1, out := r.2.2, within := true }
    if sc.limitMs > 0 && minTime sc.sleeps none r.1 > sc.limitMs then throw "limitMs below the model's minimum run time"
    let io : Obs := { trace := implTrace, out := implOut, within := obs.within }
    let spec := !abnormal && io.within && c20Leaf kind cfg scr io.trace io.out
    let specModel := c20Leaf kind cfg scr m.trace m.out
    let noW (t : List Ev) := t.filter (fun e => !e.isWait)
    pure { agree := !abnormal && io == m, spec, specModel, nontrivial := hasWait m.trace, model := obsToJ m,
           c02 := Flyt.Spec.c02Bounds cfg scr (noW io.trace), c02Model := Flyt.Spec.c02Bounds cfg scr (noW m.trace) }
  | none, none, some bc, some bs =>
    let cfg ← match batchCfgOf bc with | some c => pure c | none => throw "bad batch cfg"
    let scr ← match batchScriptOf bs with | some s => pure s | none => throw "bad batch script"
    if bs.n != 0 || bs.v != 0 then throw "batch script must be for node 0 visit 0"
    if hasStar bs.prep || hasStar bs.post || bs.items.any (fun it => hasStar it.fb || it.exec.any hasStar) then
      throw "synchronous cancellation is outside the wait family's domain"
    let items ← match scr.prep.res with
      | .ok l => pure (normItems cfg.shape l)
      | .error _ => throw "batch prep must succeed in the wait family"
    let anyCancel := bs.items.any (fun it => !it.waitCancel.isEmpty)
    let wide := decide (cfg.conc ≥ 2)
    if wide && cfg.stop then throw "stop mode on ≥ 2 workers is schedule dependent"
    if wide && anyCancel && items.length > cfg.conc then
      throw "cancellation with more items than workers is schedule dependent"
    let r := runBatchW kind 0 0 0 cfg scr .live
    let mtr := if wide then canon r.1 else r.1
    let itr := if wide then canon implTrace else implTrace
    let m : Obs := { trace := mtr, out := r.2.2, within := true }
    if sc.limitMs > 0 then
      if wide && items.length > cfg.conc then throw "limitMs with more items than workers is schedule dependent"
      let need := if wide then ((List.range items.length).map fun i => minTime sc.sleeps (some i) r.1).foldl max 0
                  else minTime sc.sleeps none r.1
      if need > sc.limitMs then throw "limitMs below the model's minimum run time"
    let io : Obs := { trace := itr, out := implOut, within := obs.within }
    let spec := !abnormal && io.within && c20Batch kind cfg scr items.length (!wide) io.trace
    let specModel := c20Batch kind cfg scr items.length (!wide) m.trace
    pure { agree := !abnormal && io == m, spec, specModel, nontrivial := hasWait m.trace, model := obsToJ m,
           batchCancel := anyCancel, c02 := c02BatchBounds cfg scr items.length io.trace,
           c02Model := c02BatchBounds cfg scr items.length m.trace }
  | _, _, _, _ => throw "scenario must have exactly one of leaf+leafScript / batch+batchScript"

def verdictJson (v : Verdict) : Json :=
  -- C11's "no new retry attempt after the cancellation, the run terminates, unexecuted items carry errors" is the
  -- same predicate on batch runs that are cancelled while an item sits in its retry wait
  Json.mkObj [("agree", Json.bool v.agree),
    ("spec", Json.mkObj [("C20", Json.bool v.spec), ("C11", Json.bool (!v.batchCancel || v.spec)), ("C02", Json.bool v.c02)]),
    ("specModel", Json.mkObj [("C20", Json.bool v.specModel), ("C11", Json.bool (!v.batchCancel || v.specModel)), ("C02", Json.bool v.c02Model)]),
    ("nontrivial", Json.mkObj [("C20", Json.bool v.nontrivial), ("C11", Json.bool v.batchCancel), ("C02", Json.bool v.nontrivial)]), ("model", toJson v.model)]

def handle (sc obs : Json) : Json :=
  match fromJson? (α := ScJ) sc, fromJson? (α := ObsJ) obs with
  | .ok s, .ok o =>
    match process s o with
    | .ok v => verdictJson v
    | .error e => Json.mkObj [("badop", Json.str e)]
  | .error e, _ => Json.mkObj [("badop", Json.str s!"scenario: {e}")]
  | _, .error e => Json.mkObj [("badop", Json.str s!"observation: {e}")]

end Driver.WaitFam
