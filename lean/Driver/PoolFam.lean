import Lean.Data.Json
import FlytModel.Model.Pool
/-!
# Driver, family `pool`: a `WorkerPool` driven by gated decisions
(`s<t>` a goroutine calls Submit(task t) · `r<t>` task t's gate is released · `w` a goroutine calls Wait ·
`c` Close). After every decision the harness waits for quiescence and reports: tasks parked inside their
body, number of Submit calls that have returned, number of Wait calls that have returned.
-/
open Lean Flyt.Pool

namespace Driver.PoolFam

structure ScJ where
  workers : Int
  decisions : List String
  procs : Option Nat := none      -- GOMAXPROCS of the run (the model does not depend on it)
  deriving FromJson, ToJson

structure PointJ where
  parked : List Nat
  submitRet : Nat
  waitDone : Nat
  deriving FromJson, ToJson, BEq

structure ObsJ where
  points : List PointJ          -- one per decision
  execCounts : List Nat         -- per task id, how often its body ran
  leaked : Nat                  -- pool worker goroutines alive after the run (only meaningful after Close)
  cap : Nat                     -- measured channel capacity
  deriving FromJson, ToJson

def parseDecision (s : String) : Option Decision :=
  match s.toList with
  | ['w'] => some .wait
  | ['c'] => some .close
  | 's' :: r => (String.ofList r).toNat?.map .submit
  | 'r' :: r => (String.ofList r).toNat?.map .release
  | _ => none

def sortNat (l : List Nat) : List Nat := (l.toArray.qsort (· < ·)).toList

def pointOf (p : Pool) : PointJ := { parked := sortNat p.running, submitRet := p.submitRet, waitDone := p.waitDone }

/-- C12 read off an observation: no task dropped or duplicated; every Wait return is a barrier for the tasks
    submitted before that Wait was called; nothing leaks after Wait + Close. -/
def specC12 (ds : List Decision) (o : ObsJ) : Bool :=
  let nTasks := (ds.filter fun d => match d with | .submit _ => true | _ => false).length
  let released := ds.filterMap fun d => match d with | .release t => some t | _ => none
  let closedAt := ds.findIdx? (· == .close)
  -- exactly once: every released task ran exactly once, no task ran more than once
  let once := o.execCounts.length == nTasks
    && (List.range nTasks).all (fun t => let c := o.execCounts.getD t 0
          if released.contains t then c == 1 else c ≤ 1)
  -- barrier: at the first point where waitDone reaches k, every task submitted before the k-th Wait call
  -- has been released (finished) at or before that point
  let waitCalls := (List.range ds.length).filter fun i => ds.getD i .close == .wait
  let barrier := (List.range waitCalls.length).all fun k =>
    match (List.range o.points.length).find? (fun j => (o.points.getD j default).waitDone ≥ k + 1) with
    | none => true
    | some j =>
      let callIdx := waitCalls.getD k 0
      let before := (ds.take callIdx).filterMap fun d => match d with | .submit t => some t | _ => none
      let doneBy := (ds.take (j + 1)).filterMap fun d => match d with | .release t => some t | _ => none
      j ≥ callIdx && before.all doneBy.contains
  -- leak: after Close (all tasks finished) no worker goroutine survives
  let leak := match closedAt with
    | some _ => (released.length != nTasks) || o.leaked == 0
    | none => true
  once && barrier && leak
where
  default : PointJ := { parked := [], submitRet := 0, waitDone := 0 }

/-- C08 on the pool: never more than `w` tasks in flight; all `w` workers busy whenever enough tasks are
    submitted and unfinished -/
def specC08 (w : Nat) (ds : List Decision) (o : ObsJ) : Bool :=
  (List.range o.points.length).all fun j =>
    let pt := o.points.getD j { parked := [], submitRet := 0, waitDone := 0 }
    let sub := ((ds.take (j + 1)).filter fun d => match d with | .submit _ => true | _ => false).length
    let fin := ((ds.take (j + 1)).filter fun d => match d with | .release _ => true | _ => false).length
    let closed := (ds.take (j + 1)).contains .close
    pt.parked.length ≤ w && (closed || pt.parked.length == min w (sub - fin))

def process (sc : ScJ) (obs : ObsJ) : Except String Json := do
  -- the harness could not carry out its schedule on the implementation (no quiescence within the watchdog, or
  -- a task it had to release was not parked): a liveness / protocol failure of the implementation
  if sc.decisions.any (·.startsWith "bad:") then
    return Json.mkObj [("agree", Json.bool false), ("spec", Json.mkObj [("C12", Json.bool false), ("C08", Json.bool false)]),
      ("specModel", Json.mkObj [("C12", Json.bool true), ("C08", Json.bool true)]), ("nontrivial", Json.mkObj []),
      ("model", Json.str "the implementation hung or left the gating protocol; the model does neither")]
  let ds ← match sc.decisions.mapM parseDecision with | some d => pure d | none => throw "bad decision"
  let p0 := init obs.cap sc.workers
  let fuel := 20 * (ds.length + 20)
  let (states, diverged) := match simulate fuel p0 ds with
    | some s => (s, false)
    | none => ([], true)
  let mPoints := states.map pointOf
  let final := states.getLast?.getD p0
  let nTasks := (ds.filter fun d => match d with | .submit _ => true | _ => false).length
  let mCounts := (List.range nTasks).map fun t => if final.finished.contains t || final.running.contains t then 1 else 0
  let mLeaked := if final.closed then final.w - final.exited - final.running.length else 0
  let closed := ds.contains .close
  let agree := !diverged && obs.points == mPoints && obs.execCounts == mCounts && (!closed || obs.leaked == mLeaked)
    && obs.cap == 2 * p0.w
  let mObs : ObsJ := { points := mPoints, execCounts := mCounts, leaked := mLeaked, cap := obs.cap }
  let kv (l : List (String × Bool)) : Json := Json.mkObj (l.map fun (k, b) => (k, Json.bool b))
  let nt := [("C12", nTasks > obs.cap + p0.w || (ds.contains .wait && closed)), ("C08", nTasks > p0.w)]
  pure (Json.mkObj [("agree", Json.bool agree),
    ("spec", kv [("C12", specC12 ds obs), ("C08", specC08 p0.w ds obs)]),
    ("specModel", kv [("C12", diverged || specC12 ds mObs), ("C08", diverged || specC08 p0.w ds mObs)]),
    ("nontrivial", kv nt), ("model", toJson mObs)])

def handle (sc obs : Json) : Json :=
  match fromJson? (α := ScJ) sc, fromJson? (α := ObsJ) obs with
  | .ok s, .ok o =>
    match process s o with
    | .ok v => v
    | .error e => Json.mkObj [("badop", Json.str e)]
  | .error e, _ => Json.mkObj [("badop", Json.str s!"scenario: {e}")]
  | _, .error e => Json.mkObj [("badop", Json.str s!"observation: {e}")]

end Driver.PoolFam
