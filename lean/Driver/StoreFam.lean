import Lean.Data.Json
import FlytModel.Spec.Store
import FlytModel.Codec
/-!
# Driver, families `store` (C14: sequential operation sequences with snapshot mutations) and
# `storehist` (C13, dynamic side: recorded concurrent histories with a claimed linearisation)

Scenario: `{"keys":[k0,k1,…], "ops":[OP,…]}`; keys are referred to by their index in `keys` (the
table must be duplicate-free), values by token number (`0` = nil).

```
OP   ::= g<k> | s<k>:<v> | a | mn | ml[<k>:<v>{,<k>:<v>}] | ms<j> | h<k> | d<k> | c | k | l
       | xs<j>:<k>:<v> | xd<j>:<k> | xk<j>:<old>:<new> | rs<j> | rk<j>
RESP ::= u | g<v>:<0|1> | b<0|1> | n<n> | k[<k>{,<k>}] | m[<k>:<v>{,<k>:<v>}] | H | P | T
```
`P` = the call panicked, `T` = the watchdog fired; a key index outside the table (the harness writes
9999 for a string it does not know) makes the response `junk`. None of these is ever produced by the
model.
-/
open Lean Flyt Flyt.Store Flyt.Spec.Store

namespace Driver.StoreFam

structure ScJ where
  keys : Array String
  ops : List String
  deriving FromJson

structure ObsJ where
  resps : List String
  deriving FromJson

structure HistScJ where
  keys : Array String
  ops : List String
  thr : List Nat
  inv : List Nat
  ret : List Nat
  deriving FromJson

structure HistObsJ where
  resps : List String
  found : Bool
  order : List Nat
  deriving FromJson

def natsSep (sep : String) (cs : List Char) : Option (List Nat) :=
  ((String.ofList cs).splitOn sep).mapM (·.toNat?)

def nats (cs : List Char) : Option (List Nat) := natsSep ":" cs

/-- `<k>:<v>{,<k>:<v>}` or empty -/
def parsePairs (cs : List Char) : Option (List (Nat × Nat)) :=
  if cs.isEmpty then some []
  else ((String.ofList cs).splitOn ",").mapM fun p =>
    match nats p.toList with
    | some [k, v] => some (k, v)
    | _ => none

def parseOp (tab : Array String) (s : String) : Option Op :=
  let key (i : Nat) : Option Key := tab[i]?
  match s.toList with
  | ['a'] => some .getAll
  | ['c'] => some .clear
  | ['k'] => some .keys
  | ['l'] => some .len
  | ['m', 'n'] => some .mergeNil
  | 'm' :: 'l' :: r => do
    let ps ← parsePairs r
    let kv ← ps.mapM fun (k, v) => do pure ((← key k), Val.tok v)
    pure (.mergeLit kv)
  | 'm' :: 's' :: r => match nats r with | some [j] => some (.mergeSnap j) | _ => none
  | 'g' :: r => match nats r with | some [k] => (key k).map .get | _ => none
  | 's' :: r => match nats r with | some [k, v] => (key k).map (.set · (.tok v)) | _ => none
  | 'h' :: r => match nats r with | some [k] => (key k).map .has | _ => none
  | 'd' :: r => match nats r with | some [k] => (key k).map .delete | _ => none
  | 'x' :: 's' :: r => match nats r with | some [j, k, v] => (key k).map (.snapSet j · (.tok v)) | _ => none
  | 'x' :: 'd' :: r => match nats r with | some [j, k] => (key k).map (.snapDel j ·) | _ => none
  | 'x' :: 'k' :: r =>
    match nats r with
    | some [j, o, n] => do pure (.keysRepl j (← key o) (← key n))
    | _ => none
  | 'r' :: 's' :: r => match nats r with | some [j] => some (.readSnap j) | _ => none
  | 'r' :: 'k' :: r => match nats r with | some [j] => some (.readKeys j) | _ => none
  | _ => none

/-- `none` = malformed (bad line); `some .junk` = well-formed but outside the vocabulary -/
def parseResp (tab : Array String) (s : String) : Option Resp :=
  match s.toList with
  | ['u'] => some .unit
  | ['H'] => some .noHandle
  | ['P'] => some .junk
  | ['T'] => some .junk
  | 'g' :: r =>
    match nats r with
    | some [v, 0] => some (.got (.tok v) false)
    | some [v, 1] => some (.got (.tok v) true)
    | _ => none
  | ['b', '0'] => some (.bool false)
  | ['b', '1'] => some (.bool true)
  | 'n' :: r => match nats r with | some [n] => some (.nat n) | _ => none
  | 'k' :: r =>
    if r.isEmpty then some (.keys []) else
    match natsSep "," r with
    | some l => some (match l.mapM (tab[·]?) with | some ks => .keys ks | none => .junk)
    | none => none
  | 'm' :: r =>
    match parsePairs r with
    | some ps => some (match ps.mapM (fun (k, v) => (tab[k]?).map (·, Val.tok v)) with
                       | some kv => .map kv | none => .junk)
    | none => none
  | _ => none

def strLe (a b : String) : Bool := !(decide (b < a))

/-- order-insensitive answers in a canonical order -/
def canon : Resp → Resp
  | .keys l => .keys (l.mergeSort strLe)
  | .map m => .map (m.mergeSort fun p q => strLe p.1 q.1)
  | r => r

def keyIdx (tab : Array String) (k : Key) : Nat := (tab.idxOf? k).getD 9999

def tokNat : Val → Nat
  | .tok n => n
  | _ => 9999

def encResp (tab : Array String) : Resp → String
  | .unit => "u"
  | .got v ok => s!"g{tokNat v}:{if ok then 1 else 0}"
  | .bool b => if b then "b1" else "b0"
  | .nat n => s!"n{n}"
  | .keys l => "k" ++ ",".intercalate (l.map fun k => toString (keyIdx tab k))
  | .map m => "m" ++ ",".intercalate (m.map fun p => s!"{keyIdx tab p.1}:{tokNat p.2}")
  | .noHandle => "H"
  | .junk => "J"

def isHandleMaker : Op → Bool
  | .getAll | .keys | .mergeLit _ => true
  | _ => false

def isMutator : Op → Bool
  | .set .. | .delete _ | .clear | .mergeLit _ | .mergeSnap _ | .snapSet .. | .snapDel .. | .keysRepl .. => true
  | _ => false

/-- a handed-out object exists and something is mutated afterwards -/
def exercisesIsolation : List Op → Bool
  | [] => false
  | op :: t => (isHandleMaker op && t.any isMutator) || exercisesIsolation t

def kvJson (k : String) (b : Bool) : Json := Json.mkObj [(k, Json.bool b)]

def bad (s : String) : Json := Json.mkObj [("badop", Json.str s)]

def parseAll {α} (what : String) (f : String → Option α) (l : List String) : Except String (List α) :=
  l.mapM fun s => match f s with | some x => pure x | none => throw s!"bad {what} {s}"

def tableOK (tab : Array String) : Bool := decide tab.toList.Nodup

def handle (sc obs : Json) : Json :=
  match fromJson? (α := ScJ) sc, fromJson? (α := ObsJ) obs with
  | .ok s, .ok o =>
    if !tableOK s.keys then bad "key table has duplicates" else
    match parseAll "op" (parseOp s.keys) s.ops, parseAll "response" (parseResp s.keys) o.resps with
    | .ok ops, .ok impl =>
      let model := run St.init ops
      let agree := model.map canon == impl.map canon
      Json.mkObj [("agree", Json.bool agree),
        -- a sequential history has exactly one linearisation (program order): C13 asks of it what C14 asks
        ("spec", Json.mkObj [("C14", Json.bool (c14 ops impl)), ("C13", Json.bool (c14 ops impl))]),
        ("specModel", Json.mkObj [("C14", Json.bool (c14 ops model)), ("C13", Json.bool (c14 ops model))]),
        ("nontrivial", Json.mkObj [("C14", Json.bool (exercisesIsolation ops)), ("C13", Json.bool (exercisesIsolation ops))]),
        ("model", toJson (model.map fun r => encResp s.keys (canon r)))]
    | .error e, _ => bad e
    | _, .error e => bad e
  | .error e, _ => bad s!"scenario: {e}"
  | _, .error e => bad s!"observation: {e}"

/-- two operations of different threads overlap in time -/
def hasOverlap (thr inv ret : List Nat) : Bool :=
  let n := thr.length
  (List.range n).any fun a => (List.range n).any fun b =>
    thr.getD a 0 != thr.getD b 0 && inv.getD a 0 < ret.getD b 0 && inv.getD b 0 < ret.getD a 0

/-- responses of the sequential replay, put back at the positions of the operations they belong to -/
def unpermute (n : Nat) (order : List Nat) (rs : List Resp) : List Resp :=
  (List.range n).map fun i =>
    match order.idxOf? i with
    | some p => rs.getD p .junk
    | none => .junk

def handleHist (sc obs : Json) : Json :=
  match fromJson? (α := HistScJ) sc, fromJson? (α := HistObsJ) obs with
  | .ok s, .ok o =>
    if !tableOK s.keys then bad "key table has duplicates" else
    match parseAll "op" (parseOp s.keys) s.ops, parseAll "response" (parseResp s.keys) o.resps with
    | .ok ops, .ok impl =>
      let n := ops.length
      if s.thr.length != n || s.inv.length != n || s.ret.length != n || impl.length != n then
        bad "history arrays differ in length"
      else if !(List.range n).all (fun i => s.inv.getD i 0 < s.ret.getD i 0) then
        bad "an operation returns before it is invoked"
      else
      let nontriv := hasOverlap s.thr s.inv s.ret
      if !o.found then
        -- the harness's search found no linearisation: a concrete non-linearizable history
        Json.mkObj [("agree", Json.bool false), ("spec", kvJson "C13" false), ("specModel", kvJson "C13" true),
          ("nontrivial", kvJson "C13" nontriv), ("model", Json.arr #[]), ("note", Json.str "no linearisation found")]
      else
      let order := o.order
      let seqOps := order.map fun i => ops.getD i .len
      let seqImpl := order.map fun i => impl.getD i .junk
      let replay := run St.init seqOps
      let agree := isPermOfRange n order && replay.map canon == seqImpl.map canon
      let model := unpermute n order replay
      Json.mkObj [("agree", Json.bool agree),
        ("spec", kvJson "C13" (linearises ops s.inv s.ret impl order)),
        ("specModel", kvJson "C13" (!isPermOfRange n order || !respectsRealTime s.inv s.ret order
            || linearises ops s.inv s.ret model order)),
        ("nontrivial", kvJson "C13" nontriv),
        ("model", toJson (model.map fun r => encResp s.keys (canon r)))]
    | .error e, _ => bad e
    | _, .error e => bad e
  | .error e, _ => bad s!"scenario: {e}"
  | _, .error e => bad s!"observation: {e}"

end Driver.StoreFam
