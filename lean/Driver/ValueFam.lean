import Lean.Data.Json
import FlytModel.Spec.Value
/-!
# Driver, family `value`: every typed accessor on one Go value (property C15)

Scenario: a value code, the six defaults, and Go's own numeric conversions of the value
(`ci` = `int(v)`, `cf` = bits of `float64(v)`; the instance of the model parameter `Conv`).

Value codes (the harness owns the table code → real Go value, `harness/valuecodec.go`):
```
T ::= int | int8 | … | uintptr | float32 | float64 | complex64 | complex128 | string | bool | any
    | P(T) | S(T) | A<n>(T) | M(T,T) | C(T) | F<k> | R(T,…) | @Name
V ::= nil | (T)payload
payload ::= -?digits | #bits | #re#im | "chars" | t | f | ~ | &id | & | [V,…] | {V,…}
```
`~` is the nil pointer / map / chan / func / slice; `&id` a non-nil pointer / map / chan with that
identity; `&` a non-nil func. `@error` is the interface type `error` (a slot type, never a dynamic
type); `(@Result){V,E}` is a `flyt.Result` used as a value: the struct `Result{value: V, err: E}`.
-/
open Lean Flyt Flyt.Value Flyt.Value.Spec

namespace Driver.ValueFam

/-! ### named types (must match `namedTypes` in harness/valuecodec.go) -/

def tRec : GoType := GoType.ofFields [.basic .int, tString]
def tNC : GoType := GoType.ofFields [.basic .int, tInts]

def namedTable : List (String × GoType) :=
  [("MyInt", .basic .int), ("MyInt8", .basic .int8), ("MyUint16", .basic .uint16), ("MyFloat", .basic .float64),
   ("MyFloat32", .basic .float32), ("MyString", tString), ("MyBool", tBool),
   ("MyAnys", tAnys), ("MyInts", tInts), ("MyStrs", tStrings), ("MyMap", tMapSA),
   ("MyRec", tRec), ("MyNC", tNC), ("MyArr", .array 2 (.basic .int)), ("MyFunc", .func 0),
   ("MyPtr", .ptr (.basic .int)), ("MyChan", .chan (.basic .int)),
   ("MyInt16", .basic .int16), ("MyInt32", .basic .int32), ("MyInt64", .basic .int64), ("MyUint", .basic .uint),
   ("MyUint8", .basic .uint8), ("MyUint32", .basic .uint32), ("MyUint64", .basic .uint64), ("MyUintptr", .basic .uintptr),
   ("MyComplex64", .basic .complex64), ("MyComplex128", .basic .complex128),
   -- the interface type `error`, `flyt.Result` itself (`tError`, `tResult` of the model are these entries),
   -- `errors.errorString` and three error types of the harness
   ("error", .any), ("Result", GoType.ofFields [.any, tError]), ("ErrStr", GoType.ofFields [tString]),
   ("MyErr", GoType.ofFields [.basic .int]), ("MyNCErr", GoType.ofFields [tStrings]), ("MyStrErr", tString),
   -- `type MyRes flyt.Result`
   ("MyRes", GoType.ofFields [.any, tError]),
   -- `encoding/json.Number` (a string-kinded type)
   ("JNumber", tString)]

/-- the table's `error` / `Result` are the model's `tError` / `tResult` -/
example : (namedTable.lookup "error").map (GoType.named "error") = some tError
    ∧ (namedTable.lookup "Result").map (GoType.named "Result") = some tResult := by decide

def basicTable : List (String × Basic) :=
  [("int", .int), ("int8", .int8), ("int16", .int16), ("int32", .int32), ("int64", .int64),
   ("uint", .uint), ("uint8", .uint8), ("uint16", .uint16), ("uint32", .uint32), ("uint64", .uint64),
   ("uintptr", .uintptr), ("float32", .float32), ("float64", .float64), ("complex64", .complex64),
   ("complex128", .complex128), ("string", .string), ("bool", .bool)]

def basicName (b : Basic) : String :=
  match basicTable.find? (fun p => p.2 == b) with
  | some p => p.1
  | none => "?"

/-! ### printing -/

partial def structFields : GoType → List GoType
  | .structField f r => f :: structFields r
  | _ => []

partial def typeCode : GoType → String
  | .basic b => basicName b
  | .any => "any"
  | .ptr t => "P(" ++ typeCode t ++ ")"
  | .slice t => "S(" ++ typeCode t ++ ")"
  | .array n t => s!"A{n}(" ++ typeCode t ++ ")"
  | .map k v => "M(" ++ typeCode k ++ "," ++ typeCode v ++ ")"
  | .chan t => "C(" ++ typeCode t ++ ")"
  | .func k => s!"F{k}"
  | .structEnd => "R()"
  | .structField f r => "R(" ++ ",".intercalate ((f :: structFields r).map typeCode) ++ ")"
  | .named n _ => "@" ++ n

def refCode : Option Nat → String
  | none => "~"
  | some i => s!"&{i}"

mutual
partial def valCode : GoVal → String
  | .nil => "nil"
  | .int t n => "(" ++ typeCode t ++ ")" ++ toString n
  | .float t b => "(" ++ typeCode t ++ ")#" ++ toString b
  | .complex t r i => "(" ++ typeCode t ++ ")#" ++ toString r ++ "#" ++ toString i
  | .str t s => "(" ++ typeCode t ++ ")\"" ++ s ++ "\""
  | .bool t b => "(" ++ typeCode t ++ ")" ++ (if b then "t" else "f")
  | .ptr t i => "(" ++ typeCode t ++ ")" ++ refCode i
  | .map t i => "(" ++ typeCode t ++ ")" ++ refCode i
  | .chan t i => "(" ++ typeCode t ++ ")" ++ refCode i
  | .func t isNil => "(" ++ typeCode t ++ ")" ++ (if isNil then "~" else "&")
  | .slice t isNil es => "(" ++ typeCode t ++ ")" ++ (if isNil then "~" else "[" ++ valsCode es ++ "]")
  | .array t es => "(" ++ typeCode t ++ ")[" ++ valsCode es ++ "]"
  | .struct t fs => "(" ++ typeCode t ++ "){" ++ valsCode fs ++ "}"
partial def valsCode (l : GoVals) : String := ",".intercalate (l.toList.map valCode)
end

/-! ### parsing -/

abbrev P := List Char

def isIdentChar (c : Char) : Bool := c.isAlphanum || c == '@'

def takeNat (cs : P) : Option (Nat × P) :=
  let ds := cs.takeWhile Char.isDigit
  if ds.isEmpty then none
  else some (ds.foldl (fun a c => a * 10 + (c.toNat - '0'.toNat)) 0, cs.dropWhile Char.isDigit)

def expect (c : Char) : P → Option P
  | d :: r => if c == d then some r else none
  | [] => none

mutual
partial def parseType (cs : P) : Option (GoType × P) :=
  let id := String.ofList (cs.takeWhile isIdentChar)
  let rest := cs.dropWhile isIdentChar
  if id.isEmpty then none
  else if id == "any" then some (.any, rest)
  else if id.startsWith "@" then
    let name := (id.drop 1).toString
    (namedTable.lookup name).map fun u => (.named name u, rest)
  else match basicTable.lookup id with
  | some b => some (.basic b, rest)
  | none =>
    match id.toList with
    | ['P'] => do let (t, r) ← parseType (← expect '(' rest); pure (.ptr t, ← expect ')' r)
    | ['S'] => do let (t, r) ← parseType (← expect '(' rest); pure (.slice t, ← expect ')' r)
    | ['C'] => do let (t, r) ← parseType (← expect '(' rest); pure (.chan t, ← expect ')' r)
    | ['M'] => do
      let (k, r) ← parseType (← expect '(' rest)
      let (v, r) ← parseType (← expect ',' r)
      pure (.map k v, ← expect ')' r)
    | ['R'] => do
      let r ← expect '(' rest
      match r with
      | ')' :: r' => pure (.structEnd, r')
      | _ =>
        let (fs, r) ← parseTypes r
        pure (GoType.ofFields fs, ← expect ')' r)
    | 'A' :: ds => do
      let (n, e) ← takeNat ds
      if !e.isEmpty then none
      let (t, r) ← parseType (← expect '(' rest)
      pure (.array n t, ← expect ')' r)
    | 'F' :: ds => do
      let (n, e) ← takeNat ds
      if !e.isEmpty then none
      pure (.func n, rest)
    | _ => none
partial def parseTypes (cs : P) : Option (List GoType × P) := do
  let (t, r) ← parseType cs
  match r with
  | ',' :: r' => let (ts, r'') ← parseTypes r'; pure (t :: ts, r'')
  | _ => pure ([t], r)
end

def parseInt (cs : P) : Option (Int × P) :=
  match cs with
  | '-' :: r => (takeNat r).map fun (n, r') => (-(n : Int), r')
  | _ => (takeNat cs).map fun (n, r') => ((n : Int), r')

mutual
partial def parseVal (cs : P) : Option (GoVal × P) :=
  match cs with
  | 'n' :: 'i' :: 'l' :: r => some (.nil, r)
  | '(' :: r => do
    let (t, r) ← parseType r
    let r ← expect ')' r
    let k := t.kind
    match r with
    | '#' :: r => do
      let (a, r) ← takeNat r
      match r with
      | '#' :: r => do
        let (b, r) ← takeNat r
        if k == .complex then pure (.complex t a b, r) else none
      | _ => if k == .float then pure (.float t a, r) else none
    | '"' :: r =>
      let s := r.takeWhile (· != '"')
      match r.dropWhile (· != '"') with
      | '"' :: r' => if k == .string then some (.str t (String.ofList s), r') else none
      | _ => none
    | 't' :: r => if k == .bool then some (.bool t true, r) else none
    | 'f' :: r => if k == .bool then some (.bool t false, r) else none
    | '~' :: r =>
      match k with
      | .ptr => some (.ptr t none, r)
      | .map => some (.map t none, r)
      | .chan => some (.chan t none, r)
      | .func => some (.func t true, r)
      | .slice => some (.slice t true .nil, r)
      | _ => none
    | '&' :: r =>
      match takeNat r with
      | some (i, r') =>
        match k with
        | .ptr => some (.ptr t (some i), r')
        | .map => some (.map t (some i), r')
        | .chan => some (.chan t (some i), r')
        | _ => none
      | none => if k == .func then some (.func t false, r) else none
    | '[' :: r => do
      let (es, r) ← parseVals ']' r
      match k with
      | .slice => pure (.slice t false (GoVals.ofList es), r)
      | .array => pure (.array t (GoVals.ofList es), r)
      | _ => none
    | '{' :: r => do
      let (es, r) ← parseVals '}' r
      if k == .struct then pure (.struct t (GoVals.ofList es), r) else none
    | _ => do
      let (n, r) ← parseInt r
      if k == .int then pure (.int t n, r) else none
  | _ => none
/-- values up to the closing bracket `close` (consumed) -/
partial def parseVals (close : Char) (cs : P) : Option (List GoVal × P) :=
  match cs with
  | c :: r =>
    if c == close then some ([], r)
    else do
      let (v, r) ← parseVal cs
      match r with
      | ',' :: r' => let (vs, r'') ← parseVals close r'; if vs.isEmpty then none else pure (v :: vs, r'')
      | c' :: r' => if c' == close then pure ([v], r') else none
      | [] => none
  | [] => none
end

/-- a complete, well-formed value -/
def parseValue (s : String) : Except String GoVal :=
  match parseVal s.toList with
  | some (v, []) => if v.wf then .ok v else .error s!"ill-formed value {s}"
  | _ => .error s!"cannot parse value {s}"

/-! ### JSON shapes -/

structure ScJ where
  v : String
  ds : String
  di : String
  df : String
  db : Bool
  dsl : String
  dm : String
  ci : String
  cf : String
  /-- the receiver is `flyt.NewErrorResult(this error)`; the value it holds — the scenario's `v` — is nil -/
  recvErr : Option String := none
  deriving FromJson, ToJson

structure FamJ where
  as : String
  ok : String
  or : String
  must : String
  get : String
  getOr : String
  getMiss : String
  getOrMiss : String
  deriving FromJson, ToJson

/-- one instantiation of `As[T]` / `MustAs[T]`: `t` is the type code of `T` -/
structure GenJ where
  t : String
  as : String
  ok : String
  must : String
  deriving FromJson, ToJson

structure ObsJ where
  str : FamJ
  int : FamJ
  flt : FamJ
  bool : FamJ
  slice : FamJ
  map : FamJ
  gen : Array GenJ
  toSlice : String
  eqSelf : String
  eqHead : String
  deriving FromJson, ToJson

/-- typed payload ↔ value code, per family -/
structure Codec (α : Type) where
  enc : α → String
  dec : String → Except String α

def strCodec : Codec String :=
  { enc := fun s => valCode (.str tString s)
    dec := fun c => do
      match ← parseValue c with
      | .str t s => if t = tString then pure s else throw s!"not a string: {c}"
      | _ => throw s!"not a string: {c}" }

def intCodec : Codec (Option Int) :=
  { enc := fun | none => "?" | some n => valCode (.int (.basic .int) n)
    dec := fun c => do
      if c == "?" then pure none else
      match ← parseValue c with
      | .int t n => if t = .basic .int then pure (some n) else throw s!"not an int: {c}"
      | _ => throw s!"not an int: {c}" }

def fltCodec : Codec Nat :=
  { enc := fun b => valCode (.float (.basic .float64) b)
    dec := fun c => do
      match ← parseValue c with
      | .float t b => if t = .basic .float64 then pure b else throw s!"not a float64: {c}"
      | _ => throw s!"not a float64: {c}" }

def boolCodec : Codec Bool :=
  { enc := fun b => valCode (.bool tBool b)
    dec := fun c => do
      match ← parseValue c with
      | .bool t b => if t = tBool then pure b else throw s!"not a bool: {c}"
      | _ => throw s!"not a bool: {c}" }

def sliceCodec : Codec SliceV :=
  { enc := fun
      | none => valCode (.slice tAnys true .nil)
      | some l => valCode (.slice tAnys false (GoVals.ofList l))
    dec := fun c => do
      match ← parseValue c with
      | .slice t isNil es =>
        if t = tAnys then pure (if isNil then none else some es.toList) else throw s!"not a []any: {c}"
      | _ => throw s!"not a []any: {c}" }

def mapCodec : Codec MapV :=
  { enc := fun i => valCode (.map tMapSA i)
    dec := fun c => do
      match ← parseValue c with
      | .map t i => if t = tMapSA then pure i else throw s!"not a map[string]any: {c}"
      | _ => throw s!"not a map[string]any: {c}" }

def encRet {α} (cd : Codec α) : Ret α → String
  | .panic => "panic"
  | .ok a => cd.enc a

def decRet {α} (cd : Codec α) (s : String) : Except String (Ret α) :=
  if s == "panic" then pure .panic else do pure (.ok (← cd.dec s))

def encFam {α} (cd : Codec α) (o : FamObs α) : FamJ :=
  { as := match o.as_ with | .panic => "panic" | .ok (x, _) => cd.enc x
    ok := match o.as_ with | .panic => "-" | .ok (_, ok) => if ok then "t" else "f"
    or := encRet cd o.or_, must := encRet cd o.must, get := encRet cd o.get, getOr := encRet cd o.getOr,
    getMiss := encRet cd o.getMiss, getOrMiss := encRet cd o.getOrMiss }

def decFam {α} (cd : Codec α) (j : FamJ) : Except String (FamObs α) := do
  let as_ ← if j.as == "panic" then (if j.ok == "-" then pure Ret.panic else throw "panic with ok flag")
    else do
      let x ← cd.dec j.as
      let ok ← match j.ok with | "t" => pure true | "f" => pure false | o => throw s!"bad ok flag {o}"
      pure (Ret.ok (x, ok))
  pure { as_, or_ := ← decRet cd j.or, must := ← decRet cd j.must, get := ← decRet cd j.get,
         getOr := ← decRet cd j.getOr, getMiss := ← decRet cd j.getMiss, getOrMiss := ← decRet cd j.getOrMiss }

def valCodec : Codec GoVal := { enc := valCode, dec := parseValue }

def encGen (t : GoType) (o : GenObs) : GenJ :=
  { t := typeCode t
    as := match o.1 with | .panic => "panic" | .ok (x, _) => valCode x
    ok := match o.1 with | .panic => "-" | .ok (_, ok) => if ok then "t" else "f"
    must := encRet valCodec o.2 }

/-- the harness must have instantiated exactly the `T`s of the model's `genTargets`, in that order -/
def decGens (js : List GenJ) : Except String (List GenObs) := do
  if js.length != genTargets.length then throw s!"{js.length} generic instantiations, expected {genTargets.length}"
  (genTargets.zip js).mapM fun (t, j) => do
    if j.t != typeCode t then throw s!"generic instantiation {j.t}, expected {typeCode t}"
    let as_ ← if j.as == "panic" then (if j.ok == "-" then pure Ret.panic else throw "panic with ok flag")
      else do
        let x ← parseValue j.as
        let ok ← match j.ok with | "t" => pure true | "f" => pure false | o => throw s!"bad ok flag {o}"
        pure (Ret.ok (x, ok))
    pure (as_, ← decRet valCodec j.must)

def eqResStr : EqRes → String
  | .eq => "eq" | .ne => "ne" | .panic => "panic"

def parseEqRes : String → Except String EqRes
  | "eq" => pure .eq | "ne" => pure .ne | "panic" => pure .panic | s => throw s!"bad comparison result {s}"

def encObs (o : Obs) : ObsJ :=
  { str := encFam strCodec o.str, int := encFam intCodec o.int, flt := encFam fltCodec o.flt,
    bool := encFam boolCodec o.bool, slice := encFam sliceCodec o.slice, map := encFam mapCodec o.map,
    gen := ((genTargets.zip o.gen).map fun (t, g) => encGen t g).toArray,
    toSlice := encRet sliceCodec o.toSlice, eqSelf := eqResStr o.eqSelf,
    eqHead := match o.eqHead with | none => "-" | some r => eqResStr r }

def decObs (j : ObsJ) : Except String Obs := do
  pure { str := ← decFam strCodec j.str, int := ← decFam intCodec j.int, flt := ← decFam fltCodec j.flt,
         bool := ← decFam boolCodec j.bool, slice := ← decFam sliceCodec j.slice, map := ← decFam mapCodec j.map,
         gen := ← decGens j.gen.toList,
         toSlice := ← decRet sliceCodec j.toSlice, eqSelf := ← parseEqRes j.eqSelf,
         eqHead := ← (if j.eqHead == "-" then pure none else do pure (some (← parseEqRes j.eqHead))) }

def parseNatStr (s : String) : Except String Nat :=
  match s.toNat? with | some n => pure n | none => throw s!"bad number {s}"

def parseIntStr (s : String) : Except String Int :=
  match s.toInt? with | some n => pure n | none => throw s!"bad integer {s}"

/-- the scenario, with `Conv` instantiated by Go's own conversions of the value. For an integer value
    the oracle `ci` is cross-checked against the exact two's-complement semantics. -/
def scenarioOf (j : ScJ) : Except String Scenario := do
  let v ← parseValue j.v
  match j.recvErr with
  | none => pure ()
  | some e =>
    -- `NewErrorResult(err)` is `Result{err: err}` (result.go:23): its value is nil, whatever the error
    let ev ← parseValue e
    if ev == .nil then throw "recvErr: nil error"
    if (GoVal.newErrorResult ev).wf != true then throw "recvErr: ill-formed error Result"
    if v != .nil then throw "recvErr: an error Result holds no value, v must be nil"
  let d : Defaults :=
    { s := j.ds, i := ← parseIntStr j.di, f := ← parseNatStr j.df, b := j.db,
      sl := ← sliceCodec.dec j.dsl, m := ← mapCodec.dec j.dm }
  let numeric := v.kind == .int || v.kind == .float
  let ci : Option Int ← if j.ci == "?" || j.ci == "-" then pure none else do pure (some (← parseIntStr j.ci))
  let cf : Nat ← if j.cf == "-" then pure 0 else parseNatStr j.cf
  if numeric && (j.ci == "-" || j.cf == "-") then throw "numeric value without Go's conversions"
  match v with
  | .int _ n =>
    if ci != some (wrap64 n) then
      throw s!"oracle: Go's int(v) = {j.ci} but two's complement gives {wrap64 n}"
  | _ => pure ()
  pure { v, d, conv := { f2i := fun _ _ => ci, f32to64 := fun _ => cf, i2f := fun _ => cf } }

def partsJson (p : Parts) : Json :=
  Json.mkObj [("str", p.str), ("int", p.int), ("flt", p.flt), ("bool", p.bool), ("slice", p.slice),
    ("map", p.map), ("gen", p.gen), ("toSlice", p.toSlice)]

def handle (sc obs : Json) : Json :=
  match fromJson? (α := ScJ) sc, fromJson? (α := ObsJ) obs with
  | .ok sj, .ok oj =>
    match scenarioOf sj, decObs oj with
    | .ok s, .ok o =>
      let m := observe s
      let lg := Legacy.observe s
      let kv (b : Bool) : Json := Json.mkObj [("C15", Json.bool b)]
      Json.mkObj [("agree", Json.bool (o == m)), ("spec", kv (c15 s o)), ("specModel", kv (c15 s m)),
        ("nontrivial", kv (nontrivial s m)), ("model", toJson (encObs m)),
        ("parts", partsJson (parts s o)), ("legacyAgree", Json.bool (o == lg))]
    | .error e, _ => Json.mkObj [("badop", Json.str s!"scenario: {e}")]
    | _, .error e => Json.mkObj [("badop", Json.str s!"observation: {e}")]
  | .error e, _ => Json.mkObj [("badop", Json.str s!"scenario: {e}")]
  | _, .error e => Json.mkObj [("badop", Json.str s!"observation: {e}")]

end Driver.ValueFam
