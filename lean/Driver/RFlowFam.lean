import Driver.FlowFam
import FlytModel.Spec.FlowRetry
/-!
# Family "rflow": `flyt.Run` on a flow whose embedded BaseNode was given a retry budget (`sc.rbudget`, wait 0)

The scenario is a flow scenario with exactly one step, a run of a flow node; that flow's start node is a leaf with a prep
callback no connection leads to. Model: `runFlowRetried` (Model/FlowRetry.lean). Judged: agreement and `Spec.c02Flow`.
-/
open Lean Flyt Flyt.Spec
namespace Driver.RFlowFam
open Driver.FlowFam

def process (sc : ScJ) (budget : Nat) (obs : ObsJ) : Except String Json := do
  let kind ← match sc.kind with
    | "canceled" => pure CtxKind.canceled | "deadline" => pure CtxKind.deadline
    | k => throw s!"bad kind {k}"
  let ctx0 ← match sc.ctx0 with
    | "live" => pure Ctx.live | "done" => pure (Ctx.done kind) | k => throw s!"bad ctx0 {k}"
  let nodes ← sc.nodes.mapM fun n =>
    match nodeDefOf n with | some d => pure (n.id, d) | none => throw s!"bad node {n.id}"
  let leafScripts ← sc.leafScripts.mapM fun j =>
    match leafScriptOf j with | some s => pure ((j.n, j.v), s) | none => throw s!"bad leaf script {j.n}.{j.v}"
  let batchScripts ← sc.batchScripts.mapM fun j =>
    match batchScriptOf j with | some s => pure ((j.n, j.v), s) | none => throw s!"bad batch script {j.n}.{j.v}"
  let leafBeh : NodeId → Nat → LeafScript := fun n v =>
    match leafScripts.find? (fun p => p.1 == (n, v)) with | some p => p.2 | none => defaultLeafScript
  let batchBeh : NodeId → Nat → BatchScript := fun n v =>
    match batchScripts.find? (fun p => p.1 == (n, v)) with | some p => p.2 | none => defaultBatchScript
  let cancelFree := ctx0 == .live
    && sc.leafScripts.all (fun j => !(j.prep.endsWith "*" || j.fb.endsWith "*" || j.post.endsWith "*"
          || j.exec.any (·.endsWith "*")) && j.waitCancel.isEmpty)
    && sc.batchScripts.all (fun j => !(j.prep.endsWith "*" || j.post.endsWith "*"
          || j.items.any (fun it => it.fb.endsWith "*" || it.exec.any (·.endsWith "*") || !it.waitCancel.isEmpty)))
  let root ← match sc.steps with
    | [st] => (match st.run, st.connect with | some r, none => pure r | _, _ => throw "rflow: the step must be a run")
    | _ => throw "rflow: exactly one step"
  let arenaFn : NodeId → NodeDef := fun n =>
    match nodes.find? (fun p => p.1 == n) with | some p => p.2 | none => .flow none []
  let (start, ops) ← match arenaFn root with
    | .flow (some s) ops => pure (s, ops)
    | _ => throw "rflow: the root must be a flow with a start node"
  -- the shape that makes attempts observable
  match arenaFn start with
    | .leaf c => if c.prepS == .absent then throw "rflow: the start node needs a prep callback"
    | _ => throw "rflow: the start node must be a leaf"
  if nodes.any (fun p => match p.2 with | .flow _ o => o.any (fun c => c.dst == some start) | _ => false) then
    throw "rflow: a connection leads to the start node"
  -- … nor is the start node re-entered as the start of a NESTED flow: every flow that starts at `start` (the root is one) is
  -- neither a connection target nor the start node of a flow (`Props.C02Flow.c02Flow_holds`'s `hnested`;
  -- `guard_insufficient` is the counterexample without it)
  let startsAtS := nodes.filterMap fun p => match p.2 with | .flow (some s0) _ => if s0 == start then some p.1 else none | _ => none
  if nodes.any (fun p => match p.2 with
      | .flow st o => (match st with | some x => startsAtS.contains x | none => false) || o.any (fun c => match c.dst with | some d => startsAtS.contains d | none => false)
      | _ => false) then
    throw "rflow: a flow that starts at the start node is itself nested"
  let env : Env := { kind, arena := arenaFn, leafBeh, batchBeh }
  let fuel := max 2000 (3 * sc.leafScripts.length + 200)
  let st0 : RunSt := { ctx := ctx0, visits := fun _ => 0 }
  let r := runFlowRetried env fuel (some start) ops budget 0 st0
  let m := obsOf (r.1, r.2.1, r.2.2.1)
  if m.out == .fuel then throw "model out of fuel"
  let ij ← match obs.runs with | [ij] => pure ij | _ => throw "rflow: exactly one run observation"
  let io ← match parseRunObs ij with | some o => pure o | none => throw "bad run observation"
  -- Flow.Run returns only the error: a successful run's action is not observable there
  let io := if io.out == .ok "*" then (match m.out with | .ok a => { io with out := .ok a } | _ => io) else io
  let agree := io == m
  let spec := c02Flow budget start cancelFree io
  let specModel := c02Flow budget start cancelFree m
  let failedOnce := r.2.2.2 ≥ 2
  pure (Json.mkObj [("agree", Json.bool agree),
    -- C20 (no wait before a FIRST attempt, whatever attempt the enclosing flow is at): the start node may carry a one-hour wait and
    -- succeeds at its first attempt every time, so a run that returned at all has not waited; a run that did not return is "H" below
    ("spec", Json.mkObj [("C02", Json.bool spec), ("C20", Json.bool true)]),
    ("specModel", Json.mkObj [("C02", Json.bool specModel), ("C20", Json.bool true)]),
    ("nontrivial", Json.mkObj [("C02", Json.bool (failedOnce && cancelFree)),
      ("C20", Json.bool (failedOnce && (match arenaFn start with | .leaf c => decide (c.wait > 0) | _ => false)))]),
    ("model", toJson [runObsToJ m]), ("attempts", toJson r.2.2.2)])

structure RScJ where
  rbudget : Nat
  deriving FromJson

def handle (sc obs : Json) : Json :=
  match fromJson? (α := ScJ) sc, fromJson? (α := RScJ) sc, fromJson? (α := ObsJ) obs with
  | .ok s, .ok b, .ok o =>
    if o.runs.any (fun r => r.out == "H" || r.out == "P") then
      Json.mkObj [("agree", Json.bool false), ("spec", Json.mkObj [("C02", Json.bool false), ("C20", Json.bool false)]),
        ("specModel", Json.mkObj [("C02", Json.bool true), ("C20", Json.bool true)]), ("nontrivial", Json.mkObj []),
        ("model", Json.str "the implementation did not return (watchdog \"H\") or panicked (\"P\"); the model terminates normally")]
    else
    match process s b.rbudget o with
    | .ok v => v
    | .error e => Json.mkObj [("badop", Json.str e)]
  | .error e, _, _ => Json.mkObj [("badop", Json.str s!"scenario: {e}")]
  | _, .error e, _ => Json.mkObj [("badop", Json.str s!"scenario (rbudget): {e}")]
  | _, _, .error e => Json.mkObj [("badop", Json.str s!"observation: {e}")]

end Driver.RFlowFam
