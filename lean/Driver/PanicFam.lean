import Lean.Data.Json
import FlytModel.Codec
import Driver.FlowFam
import Driver.WaitFam
/-!
# Driver, family `panic`: one run of a single node in which one user callback panics

Go semantics of a panic in a callback: the callback does not return, nothing after it in `Run` is executed (no retry, no fallback, no
post, no deferred recovery in flyt), and the panic propagates to whoever called `flyt.Run` — the harness reports outcome `P`.
The model of such a run is therefore the model of the SAME run in which the panicking callback ends it on the spot (`runLeaf`
with that callback returning a reserved error, the retry budget cut at the panicking attempt and no fallback), with the outcome
replaced by `P`; if the panicking callback is never reached the run is the ordinary one.

Judged (keys C18, C04, C01): the implementation's trace is exactly that prefix and its outcome is `P` — in particular a run in which a
callback panicked never "succeeds", least of all with an empty action (C18), and no later callback is invoked (C04's fail-stop).
-/
open Lean Flyt Flyt.Codec Flyt.Spec

namespace Driver.PanicFam
open Driver.FlowFam (LeafCfgJ LeafScriptJ BatchCfgJ BatchScriptJ leafCfgOf leafScriptOf batchCfgOf batchScriptOf)

structure ScJ where
  kind : String
  leaf : Option LeafCfgJ := none
  leafScript : Option LeafScriptJ := none
  batch : Option BatchCfgJ := none
  batchScript : Option BatchScriptJ := none
  panicAt : String := ""
  panicVal : String := ""
  tag : String := ""
  deriving FromJson, ToJson

def reserved : Nat := 999983

/-- the model's run when callback `site` ("p", "e<k>", "f", "o") panics: (trace, panicked?) -/
def panicRun (kind : CtxKind) (cfg : LeafCfg) (scr : LeafScript) (site : String) : Option (List Ev × Outcome × Bool) :=
  let bad : Out Val := { res := .error reserved }
  let mod : Option (LeafCfg × LeafScript) :=
    if site == "p" then some (cfg, { scr with prep := bad })
    else if site == "f" then some (cfg, { scr with fb := bad })
    else if site == "o" then some (cfg, { scr with post := { res := .error reserved } })
    else if site.startsWith "e" then
      match (site.drop 1).toNat? with
      | some k => some ({ cfg with budget := min cfg.budget (k + 1), fb := .absent },
                        { scr with exec := fun j => if j == k then bad else scr.exec j })
      | none => none
    else none
  match mod with
  | none => none
  | some (cfg', scr') =>
    let r := runLeaf kind 0 0 0 cfg' scr' .live
    if r.2.2 == .err (.user reserved) then some (r.1, r.2.2, true)
    else
      let r0 := runLeaf kind 0 0 0 cfg scr .live
      some (r0.1, r0.2.2, false)

/-- the model's run of a SEQUENTIAL batch in which exec attempt `k` of item `i` panics ("b<i>:<k>"): the run of the same batch with
    that attempt failing, cut right after the event of that very exec call (nothing runs after a panic: no retry, no fallback, no
    later item, no post); if the attempt is never reached the run is the ordinary one. (trace, outcome, panicked?) -/
def panicBatchRun (kind : CtxKind) (cfg : BatchCfg) (scr : BatchScript) (site : String) : Option (List Ev × Outcome × Bool) :=
  match (site.drop 1).toString.splitOn ":" with
  | [si, sk] =>
    match si.toNat?, sk.toNat? with
    | some i, some k =>
      let bad : Out Val := { res := .error reserved }
      let scr' : BatchScript := { scr with item := fun j => if j == i then { scr.item j with exec := fun a => if a == k then bad else (scr.item j).exec a } else scr.item j }
      let r := runBatch kind 0 0 0 cfg scr' .live
      let isSite : Ev → Bool := fun e => match e with | .bexec _ _ i' k' _ => i' == i && k' == k | _ => false
      (match r.1.findIdx? isSite with
       | some p => some (r.1.take (p + 1), r.2.2, true)
       | none => let r0 := runBatch kind 0 0 0 cfg scr .live; some (r0.1, r0.2.2, false))
    | _, _ => none
  | _ => none

def handleBatch (s : ScJ) (o : Driver.WaitFam.ObsJ) (bc : BatchCfgJ) (bs : BatchScriptJ) : Json :=
  match batchCfgOf bc, batchScriptOf bs with
  | some cfg, some scr =>
    if cfg.conc != 0 then Json.mkObj [("badop", Json.str "panic family: sequential batches only (a panic on a pool goroutine ends the process)")] else
    let kind := if s.kind == "deadline" then CtxKind.deadline else .canceled
    match panicBatchRun kind cfg scr s.panicAt with
    | none => Json.mkObj [("badop", Json.str s!"bad panicAt {s.panicAt}")]
    | some (tr, out, panicked) =>
      let mtrace := tr.map evStr
      let mout := if panicked then "P" else outStr out
      let agree := o.trace == mtrace && o.out == mout
      let noSuccess := !panicked || !(o.out.startsWith "A")
      let failStop := !panicked || o.trace.length ≤ mtrace.length      -- no callback after the panicking one: no later item, no post
      let spec := noSuccess && failStop && (!panicked || o.out == "P")
      let keys := ["C09", "C06", "C07", "C04", "C01", "C18"]
      Json.mkObj [("agree", Json.bool agree),
        ("spec", Json.mkObj (keys.map fun k => (k, Json.bool spec))),
        ("specModel", Json.mkObj (keys.map fun k => (k, Json.bool true))),
        ("nontrivial", Json.mkObj (keys.map fun k => (k, Json.bool panicked))),
        ("model", Json.mkObj [("trace", toJson mtrace), ("out", Json.str mout)])]
  | _, _ => Json.mkObj [("badop", Json.str "bad batch cfg / script")]

def handle (sc obs : Json) : Json :=
  match fromJson? (α := ScJ) sc, fromJson? (α := Driver.WaitFam.ObsJ) obs with
  | .ok s, .ok o =>
    match s.batch, s.batchScript with
    | some bc, some bs => handleBatch s o bc bs
    | _, _ =>
    match s.leaf, s.leafScript with
    | some lc, some ls =>
      match leafCfgOf lc, leafScriptOf ls with
      | some cfg, some scr =>
        let kind := if s.kind == "deadline" then CtxKind.deadline else .canceled
        match panicRun kind cfg scr s.panicAt with
        | none => Json.mkObj [("badop", Json.str s!"bad panicAt {s.panicAt}")]
        | some (tr, out, panicked) =>
          let mtrace := tr.map evStr
          let mout := if panicked then "P" else outStr out
          let agree := o.trace == mtrace && o.out == mout
          -- the property clauses, on the implementation's observation alone
          let noSuccess := !panicked || !(o.out.startsWith "A")          -- a panicked run never reports success
          let failStop := !panicked || o.trace.length ≤ mtrace.length    -- no callback after the panicking one
          let spec := noSuccess && failStop && (!panicked || o.out == "P")
          Json.mkObj [("agree", Json.bool agree),
            ("spec", Json.mkObj [("C18", Json.bool noSuccess), ("C04", Json.bool (failStop && noSuccess)), ("C01", Json.bool spec)]),
            ("specModel", Json.mkObj [("C18", Json.bool true), ("C04", Json.bool true), ("C01", Json.bool true)]),
            ("nontrivial", Json.mkObj [("C18", Json.bool panicked), ("C04", Json.bool panicked), ("C01", Json.bool panicked)]),
            ("model", Json.mkObj [("trace", toJson mtrace), ("out", Json.str mout)])]
      | _, _ => Json.mkObj [("badop", Json.str "bad leaf cfg / script")]
    | _, _ => Json.mkObj [("badop", Json.str "panic scenario must have leaf + leafScript")]
  | .error e, _ => Json.mkObj [("badop", Json.str s!"scenario: {e}")]
  | _, .error e => Json.mkObj [("badop", Json.str s!"observation: {e}")]

end Driver.PanicFam
