import Driver.FlowFam
import Driver.BatchFam
import Driver.BindFam
import Driver.PoolFam
import Driver.ValueFam
import Driver.StoreFam
import Driver.ConfigFam
import Driver.WaitFam
import Driver.PanicFam
import Driver.RFlowFam
/-!
# `flytdriver`: one JSON line in (`{"fam":…,"sc":…,"obs":…}`), one JSON verdict line out.
The scenario is run through the Lean model; the property predicates (`Spec.*`) are evaluated on
the implementation's observation; `agree` says whether model and implementation observed the same.
-/
open Lean

def handleLine (line : String) : Json :=
  match Json.parse line with
  | .error e => Json.mkObj [("badop", Json.str s!"json: {e}")]
  | .ok j =>
    match j.getObjValAs? String "fam", j.getObjVal? "sc", j.getObjVal? "obs" with
    | .ok fam, .ok sc, .ok obs =>
      match fam with
      | "flow" => Driver.FlowFam.handle sc obs
      | "gbatch" => Driver.BatchFam.handle sc obs
      | "bind" => Driver.BindFam.handle sc obs
      | "pool" => Driver.PoolFam.handle sc obs
      | "value" => Driver.ValueFam.handle sc obs
      | "store" => Driver.StoreFam.handle sc obs
      | "storehist" => Driver.StoreFam.handleHist sc obs
      | "config" => Driver.ConfigFam.handle sc obs
      | "wait" => Driver.WaitFam.handle sc obs
      | "panic" => Driver.PanicFam.handle sc obs
      | "rflow" => Driver.RFlowFam.handle sc obs
      | f => Json.mkObj [("badop", Json.str s!"unknown family {f}")]
    | _, _, _ => Json.mkObj [("badop", Json.str "missing fam/sc/obs")]

partial def loop (hin : IO.FS.Stream) (hout : IO.FS.Stream) : IO Unit := do
  let line ← hin.getLine
  if line.isEmpty then return ()
  let t := line.trimAscii.toString
  if !t.isEmpty then
    hout.putStrLn (handleLine t).compress
  loop hin hout

def main : IO Unit := do
  let hin ← IO.getStdin
  let hout ← IO.getStdout
  loop hin hout
