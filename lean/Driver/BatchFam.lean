import Lean.Data.Json
import FlytModel.Spec.Batch
import FlytModel.Codec
import Driver.FlowFam
/-!
# Driver, family `gbatch`: a concurrent batch run under full gating (every exec call parks until the
harness releases it). The harness reports the exec calls that had started at each quiescent point.
-/
open Lean Flyt Flyt.Codec Flyt.Spec Flyt.Conc

namespace Driver.BatchFam

structure ItemJ where
  exec : List String
  fb : String
  deriving FromJson, ToJson

structure ScJ where
  n : Nat
  conc : Nat
  stop : Bool
  budget : Nat
  fb : String
  execS : String
  kind : String
  prep : String                 -- VALS (boxed results)
  items : List ItemJ
  decisions : List String       -- "r<i>" | "c"
  pre : Option Nat := none      -- the same node was run before with this concurrency (the model has no state across runs)
  procs : Option Nat := none    -- GOMAXPROCS of the run (the model does not depend on it)
  deriving FromJson, ToJson

structure ObsJ where
  phases : List (List (List Nat))   -- per quiescent point: the (item, attempt) pairs that started since the previous one, sorted
  items : String
  slots : String
  posts : Nat
  out : String
  deriving FromJson, ToJson

def parseDecision (s : String) : Option Decision :=
  match s.toList with
  | ['c'] => some .cancel
  | 'r' :: r => (String.ofList r).toNat?.map .release
  | _ => none

def cfgOf (sc : ScJ) : Option Cfg := do
  let fb ← Driver.FlowFam.parseFb sc.fb
  let ex ← Driver.FlowFam.parseStyle sc.execS
  let kind ← match sc.kind with
    | "canceled" => some CtxKind.canceled | "deadline" => some CtxKind.deadline
    -- cancelled with a custom cause / by hand long before a far deadline: ctx.Err() is context.Canceled
    | "cause" => some CtxKind.canceled | "fardeadline" => some CtxKind.canceled | "child" => some CtxKind.canceled | "neardeadline" => some CtxKind.deadline
    | _ => none
  let items ← sc.items.mapM fun it => do
    let ex ← it.exec.mapM parseOutVal
    let fb ← parseOutVal it.fb
    pure (ex, fb)
  let w := if sc.conc = 0 then 1 else sc.conc
  pure { n := sc.n, w := w, cap := 2 * w, stop := sc.stop, budget := sc.budget, fb := fb, execS := ex,
         exec := fun i k => ((items.getD i ([], Driver.FlowFam.errOut 997)).1).getD k (Driver.FlowFam.errOut 998),
         fbOut := fun i => (items.getD i ([], Driver.FlowFam.errOut 997)).2, kind := kind }

def sortPairs (l : List (Nat × Nat)) : List (Nat × Nat) :=
  (l.toArray.qsort (fun a b => a.1 < b.1 || (a.1 == b.1 && a.2 < b.2))).toList

/-- new `start` events of state `s` relative to a log of length `seen` (logs are newest first) -/
def newStarts (s : BState) (seen : Nat) : List (Nat × Nat) :=
  sortPairs ((s.log.take (s.log.length - seen)).filterMap fun e => match e with | .start i k => some (i, k) | _ => none)

/-- unified event list from phases + decisions (`done` = the release of the parked attempt) -/
def eventsOf (phases : List (List (Nat × Nat))) (ds : List Decision) (posts : Nat) : List Obs × List Nat :=
  let rec go (ph : List (List (Nat × Nat))) (ds : List Decision) (acc : List Obs) (q : List Nat)
      (parked : List (Nat × Nat)) (fuel : Nat) : List Obs × List Nat :=
    match fuel with
    | 0 => (acc, q)
    | fuel + 1 =>
      match ph with
      | [] => (acc, q)
      | p :: ph' =>
        let acc := acc ++ p.map (fun (i, k) => Obs.start i k)
        let parked := parked ++ p
        let q := q ++ [acc.length]
        match ds with
        | [] => (acc, q)
        | .cancel :: ds' => go ph' ds' (acc ++ [.cancel]) q parked fuel
        | .release i :: ds' =>
          let k := ((parked.find? (·.1 = i)).map (·.2)).getD 0
          go ph' ds' (acc ++ [.done i k]) q (parked.filter (·.1 ≠ i)) fuel
  let (ev, q) := go phases ds [] [] [] (phases.length + 1)
  (ev ++ List.replicate posts .post, q)

def resultOfVal (v : Val) : Result := match v.asResult? with | some r => r | none => newResult v

def process (sc : ScJ) (obs : ObsJ) : Except String Json := do
  -- the harness could not carry out its schedule on the implementation (no quiescence within the watchdog, or
  -- a task it had to release was not parked): a liveness / protocol failure of the implementation
  if sc.decisions.any (·.startsWith "bad:") then
    return Json.mkObj [("agree", Json.bool false), ("spec", Json.mkObj [("C06", Json.bool false), ("C07", Json.bool false), ("C08", Json.bool false), ("C09", Json.bool false), ("C11", Json.bool false), ("C02", Json.bool false), ("C17", Json.bool false), ("C19", Json.bool false)]),
      ("specModel", Json.mkObj [("C06", Json.bool true), ("C07", Json.bool true), ("C08", Json.bool true), ("C09", Json.bool true), ("C11", Json.bool true), ("C02", Json.bool true), ("C17", Json.bool true), ("C19", Json.bool true)]), ("nontrivial", Json.mkObj []),
      ("model", Json.str "the implementation hung or left the gating protocol; the model does neither")]
  let c ← match cfgOf sc with | some c => pure c | none => throw "bad scenario"
  let ds ← match sc.decisions.mapM parseDecision with | some d => pure d | none => throw "bad decision"
  let prepVals ← match parseVals sc.prep with | some v => pure v | none => throw "bad prep"
  let fuel := 50 * (sc.n + 2) * (sc.budget + 2) + 100
  -- when the implementation released a call that is not parked in the model the schedules have diverged:
  -- that is a disagreement (the model's observation is then the start-up state only), not a protocol error
  let (states, diverged) := match simulate c fuel ds with
    | some st => (st, false)
    | none => ([quiesce c fuel (init c)], true)
  -- model observation
  let mPhases : List (List (Nat × Nat)) :=
    (states.foldl (fun (acc : List (List (Nat × Nat)) × Nat) s => (acc.1 ++ [newStarts s acc.2], s.log.length)) ([], 0)).1
  let final := states.getLast?.getD (init c)
  let mSlots : List Result := final.slots.map fun o => o.getD zeroSlot
  let mPosts := if final.posted then 1 else 0
  let mItems := (prepVals.map toResult).map Result.box
  -- implementation observation
  let iPhases : List (List (Nat × Nat)) := obs.phases.map fun p => sortPairs (p.filterMap fun x =>
    match x with | [i, k] => some (i, k) | _ => none)
  let iSlotsV ← match parseVals obs.slots with | some v => pure v | none => throw "bad slots"
  let iItems ← match parseVals obs.items with | some v => pure v | none => throw "bad items"
  let iSlots := iSlotsV.map resultOfVal
  let agree := !diverged && iPhases == mPhases && iSlots == mSlots && obs.posts == mPosts && obs.out == "Adefault" && iItems == mItems
  let mkView (ph : List (List (Nat × Nat))) (items : List Val) (slots : List Result) (posts : Nat) (ok : Bool) : BatchView :=
    let (ev, q) := eventsOf ph ds posts
    -- fallback events are not gated: insert them from the scripts' point of view is impossible for the
    -- implementation side, so the views carry none and C07's fallback count is judged in the flow family
    { events := ev, quiescent := q, items := items, slots := slots, posts := posts, outOk := ok }
  let iv := mkView iPhases iItems iSlots obs.posts (obs.out == "Adefault")
  let mv := mkView mPhases mItems mSlots mPosts true
  let judge (v : BatchView) : List (String × Bool) :=
    [("C06", c06 c mItems v), ("C07", c07g c v), ("C08", c08 c false v), ("C09", c09 c v), ("C11", c11 c v),
     ("C02", c02g c v),
     -- C17 inside batches: slot i is exactly what item i's exec (or fallback) returned
     ("C17", (List.range c.n).all fun i => slotMatches c v.events i (v.slots.getD i default)),
     -- C19: the LAST concurrency setting decides the width, whatever was configured / run before
     ("C19", c08 c false v)]
  let anyFail := (List.range c.n).any fun i => (okOf (c.exec i 0)).isNone
  let nontrivial : List (String × Bool) :=
    [("C06", sc.n ≥ 2 && sc.conc ≥ 2), ("C07", !sc.stop && anyFail), ("C08", sc.n > sc.conc),
     ("C09", sc.stop && (mSlots.any (·.isError))), ("C11", ds.contains .cancel), ("C02", anyFail),
     ("C17", sc.n ≥ 2), ("C19", sc.pre.isSome && sc.n > sc.conc)]
  let kv (l : List (String × Bool)) : Json := Json.mkObj (l.map fun (k, b) => (k, Json.bool b))
  let mObs : ObsJ := { phases := mPhases.map (·.map fun (i, k) => [i, k]), items := valsStr mItems,
                       slots := valsStr (mSlots.map Result.box), posts := mPosts, out := "Adefault" }
  pure (Json.mkObj [("agree", Json.bool agree), ("spec", kv (judge iv)),
    ("specModel", kv (if diverged then (judge mv).map (fun (k, _) => (k, true)) else judge mv)),
    ("nontrivial", kv nontrivial), ("model", toJson mObs)])
where
  /-- C07 / C02 without the fallback-count clause (fallback calls are not visible in gated phases) -/
  c07g (c : Cfg) (v : BatchView) : Bool :=
    if c.stop || !cancelFree c v || c.execS == .absent || c.budget == 0 then true else
    (List.range c.n).all fun i =>
      itemStarts v.events i == List.range (lastAttempt c i + 1)
      && slotMatches c v.events i (v.slots.getD i default)
  c02g (c : Cfg) (v : BatchView) : Bool :=
    if !cancelFree c v || c.execS == .absent || c.budget == 0 then true else
    (List.range c.n).all fun i =>
      (itemStarts v.events i).isEmpty || (itemDones v.events i).length < (itemStarts v.events i).length
        || itemStarts v.events i == List.range (lastAttempt c i + 1)

def handle (sc obs : Json) : Json :=
  match fromJson? (α := ScJ) sc, fromJson? (α := ObsJ) obs with
  | .ok s, .ok o =>
    match process s o with
    | .ok v => v
    | .error e => Json.mkObj [("badop", Json.str e)]
  | .error e, _ => Json.mkObj [("badop", Json.str s!"scenario: {e}")]
  | _, .error e => Json.mkObj [("badop", Json.str s!"observation: {e}")]

end Driver.BatchFam
