import Lean.Data.Json
import FlytModel.Spec.Flow
import FlytModel.Spec.Batch
import FlytModel.Codec
/-!
# Driver, family `flow`: single-node runs, flows, nested flows, sequential / serial-pool batches
-/
open Lean Flyt Flyt.Codec Flyt.Spec

namespace Driver.FlowFam

structure LeafCfgJ where
  retryable : Bool
  budget : Nat
  wait : Nat
  fb : String
  prepS : String
  execS : String
  postS : String
  deriving FromJson, ToJson

structure BatchCfgJ where
  budget : Nat
  wait : Nat
  fb : String
  conc : Nat
  stop : Bool
  execS : String
  hasPost : Bool
  shape : String
  deriving FromJson, ToJson

structure ConnJ where
  src : Nat
  action : String
  dst : Option Nat
  deriving FromJson, ToJson

structure FlowJ where
  start : Option Nat
  ops : List ConnJ
  deriving FromJson, ToJson

structure NodeJ where
  id : Nat
  leaf : Option LeafCfgJ := none
  flow : Option FlowJ := none
  batch : Option BatchCfgJ := none
  deriving FromJson, ToJson

structure LeafScriptJ where
  n : Nat
  v : Nat
  prep : String
  exec : List String
  waitCancel : List Nat := []
  fb : String
  post : String
  deriving FromJson, ToJson

structure ItemScriptJ where
  exec : List String
  waitCancel : List Nat := []
  fb : String
  deriving FromJson, ToJson

structure BatchScriptJ where
  n : Nat
  v : Nat
  prep : String
  items : List ItemScriptJ
  post : String
  deriving FromJson, ToJson

structure ConnectStepJ where
  flow : Nat
  src : Nat
  action : String
  dst : Option Nat
  deriving FromJson, ToJson

structure StepJ where
  run : Option Nat := none
  connect : Option ConnectStepJ := none
  via : Option String := none     -- "flow": run through Flow.Run, which hides the action ("*")
  deriving FromJson, ToJson

structure ScJ where
  kind : String
  ctx0 : String
  nodes : List NodeJ
  leafScripts : List LeafScriptJ
  batchScripts : List BatchScriptJ := []
  steps : List StepJ
  /-- `[i, j]`: run number i and run number j are runs of two nodes that were configured with the same settings and
      functions through different construction styles; node ids apart, their observations must be the same (C19) -/
  pairs : Option (List (List Nat)) := none
  /-- per-node default scripts (`v` is ignored): the script of every visit of node `n` that has no script of its own — lets a
      long loop be written with two scripts instead of thousands -/
  nodeDefaults : Option (List LeafScriptJ) := none
  /-- an upper bound on the number of node visits of a run (only given by generators of long paths: the model's fuel) -/
  longest : Option Nat := none
  deriving FromJson, ToJson

structure RunObsJ where
  trace : List String
  out : String
  store : List Nat
  deriving FromJson, ToJson

structure ObsJ where
  runs : List RunObsJ
  deriving FromJson, ToJson

def parseStyle : String → Option Style
  | "absent" => some .absent | "direct" => some .direct | "res" => some .res | "any" => some .any | _ => none
def parseFb : String → Option FbKind
  | "absent" => some .absent | "pass" => some .passThrough | "custom" => some .custom | _ => none
def parseShape : String → Option PrepShape
  | "results" => some .results | "anys" => some .anys | "typed" => some .typed | "ptrs" => some .typed   -- a typed slice of pointers (nil elements included): the same generic ToSlice path
  | "single" => some .single | "nil" => some .nilv | _ => none

def leafCfgOf (j : LeafCfgJ) : Option LeafCfg := do
  pure { retryable := j.retryable, budget := j.budget, wait := j.wait, fb := ← parseFb j.fb,
         prepS := ← parseStyle j.prepS, execS := ← parseStyle j.execS, postS := ← parseStyle j.postS }

def batchCfgOf (j : BatchCfgJ) : Option BatchCfg := do
  pure { budget := j.budget, wait := j.wait, fb := ← parseFb j.fb, conc := j.conc, stop := j.stop,
         execS := ← parseStyle j.execS, hasPost := j.hasPost, shape := ← parseShape j.shape }

def errOut {α} (n : Nat) : Out α := { res := .error n }

def execFn (l : List (Out Val)) : Nat → Out Val := fun k => l.getD k (errOut 998)
def wcFn (l : List Nat) : Nat → Bool := fun k => l.contains k

def defaultLeafScript : LeafScript :=
  { prep := errOut 999, exec := fun _ => errOut 998, waitCancel := fun _ => false, fb := errOut 997, post := errOut 996 }
def defaultItemScript : ItemScript :=
  { exec := fun _ => errOut 998, waitCancel := fun _ => false, fb := errOut 997 }
def defaultBatchScript : BatchScript :=
  { prep := errOut 999, item := fun _ => defaultItemScript, post := errOut 996 }

def leafScriptOf (j : LeafScriptJ) : Option LeafScript := do
  pure { prep := ← parseOutVal j.prep, exec := execFn (← j.exec.mapM parseOutVal), waitCancel := wcFn j.waitCancel,
         fb := ← parseOutVal j.fb, post := ← parseOutAct j.post }

def itemScriptOf (j : ItemScriptJ) : Option ItemScript := do
  pure { exec := execFn (← j.exec.mapM parseOutVal), waitCancel := wcFn j.waitCancel, fb := ← parseOutVal j.fb }

/-- batch prep: `VALS` | `!n`, optional trailing `*` -/
def parseBatchPrep (s : String) : Option (Out (List Val)) :=
  let (body, c) := if s.endsWith "*" then ((s.dropEnd 1).toString, true) else (s, false)
  match body.toList with
  | '!' :: r => (String.ofList r).toNat?.map fun n => { res := .error n, cancels := c }
  | _ => (parseVals body).map fun v => { res := .ok v, cancels := c }

def batchScriptOf (j : BatchScriptJ) : Option BatchScript := do
  let items ← j.items.mapM itemScriptOf
  pure { prep := ← parseBatchPrep j.prep, item := fun i => items.getD i defaultItemScript, post := ← parseOutAct j.post }

def nodeDefOf (j : NodeJ) : Option NodeDef :=
  match j.leaf, j.flow, j.batch with
  | some l, none, none => (leafCfgOf l).map .leaf
  | none, some f, none => some (.flow f.start (f.ops.map fun c => ⟨c.src, c.action, c.dst⟩))
  | none, none, some b => (batchCfgOf b).map .batch
  | _, _, _ => none

def clearOut {α} (o : Out α) : Out α := { o with cancels := false }

/-- the same behaviour with every `cancels` flag and asynchronous wait-cancellation cleared -/
def noCancelEnv (env : Env) : Env :=
  { env with
    leafBeh := fun n v =>
      let s := env.leafBeh n v
      { prep := clearOut s.prep, exec := fun k => clearOut (s.exec k), waitCancel := fun _ => false,
        fb := clearOut s.fb, post := clearOut s.post }
    batchBeh := fun n v =>
      let s := env.batchBeh n v
      { prep := clearOut s.prep,
        item := fun i => let it := s.item i
          { exec := fun k => clearOut (it.exec k), waitCancel := fun _ => false, fb := clearOut it.fb }
        post := clearOut s.post } }

def storeLog (tr : List Ev) : List Nat :=
  tr.filterMap fun e => match e with | .prep n _ _ => some n | .bprep n _ _ => some n | _ => none

def obsOf (r : List Ev × RunSt × Outcome) : RunObs :=
  { trace := noWaits r.1, out := r.2.2, store := storeLog r.1 }

def runObsToJ (o : RunObs) : RunObsJ :=
  { trace := o.trace.map evStr, out := outStr o.out, store := o.store }

def parseRunObs (j : RunObsJ) : Option RunObs := do
  pure { trace := ← j.trace.mapM parseEv, out := ← parseOut j.out, store := j.store }

/-- canonical order for the events of a concurrent batch (between its bprep and bpost): by item, attempt.
    Only applied to runs whose scenario contains a batch with `conc ≥ 2`. -/
def hasWideBatch (nodes : List NodeDef) : Bool :=
  nodes.any fun d => match d with | .batch c => decide (c.conc ≥ 2) | _ => false

structure Verdict where
  agree : Bool
  spec : List (String × Bool)         -- property predicates on the implementation's observation
  specModel : List (String × Bool)    -- the same predicates on the model's observation (must all be true)
  nontrivial : List (String × Bool)   -- did this scenario exercise the property's interesting branch
  model : List RunObsJ
  note : String := ""

def andAll (l : List (String × Bool)) (k : String) (b : Bool) : List (String × Bool) :=
  match l with
  | [] => [(k, b)]
  | (k', b') :: t => if k' = k then (k, b' && b) :: t else (k', b') :: andAll t k b

def orAll (l : List (String × Bool)) (k : String) (b : Bool) : List (String × Bool) :=
  match l with
  | [] => [(k, b)]
  | (k', b') :: t => if k' = k then (k, b' || b) :: t else (k', b') :: orAll t k b

def FUEL : Nat := 2000

/-- an event with its node id replaced -/
def relabelEv (f : NodeId → NodeId) : Ev → Ev
  | .prep n v s => .prep (f n) v s
  | .exec n v k a => .exec (f n) v k a
  | .wait n v k d fi => .wait (f n) v k d fi
  | .fb n v a e => .fb (f n) v a e
  | .post n v s a b => .post (f n) v s a b
  | .bprep n v s => .bprep (f n) v s
  | .bexec n v i k a => .bexec (f n) v i k a
  | .bwait n v i k d fi => .bwait (f n) v i k d fi
  | .bfb n v i a e => .bfb (f n) v i a e
  | .bpost n v s it sl => .bpost (f n) v s it sl

/-- **C19** on a pair of runs: the same observation up to the node's identity -/
def sameUpToNode (a b : RunObs) : Bool :=
  a.trace.map (relabelEv fun _ => 0) == b.trace.map (relabelEv fun _ => 0) && a.out == b.out
    && a.store.length == b.store.length

/-- the batch-level view of a run whose root is a batch node (sequential / one-worker / schedule-independent) -/
def batchViewOf (o : RunObs) : BatchView :=
  let ev : List Conc.Obs := o.trace.flatMap fun e =>
    match e with
    | .bexec _ _ i k _ => [Conc.Obs.start i k, Conc.Obs.done i k]
    | .bfb _ _ i _ _ => [Conc.Obs.fb i]
    | .bpost .. => [Conc.Obs.post]
    | _ => []
  let posts := o.trace.filterMap fun e => match e with | .bpost _ _ _ it sl => some (it, sl) | _ => none
  let (items, slots) := posts.getLast?.getD ([], [])
  { events := ev, quiescent := [], items := items,
    slots := slots.map (fun v => match v.asResult? with | some r => r | none => newResult v),
    posts := posts.length, outOk := (match o.out with | .ok _ => true | _ => false) }

def concCfgOf (kind : CtxKind) (cfg : BatchCfg) (scr : BatchScript) (n : Nat) : Conc.Cfg :=
  { n := n, w := if cfg.conc = 0 then 1 else cfg.conc, cap := 2 * (if cfg.conc = 0 then 1 else cfg.conc),
    stop := cfg.stop, budget := cfg.budget, fb := cfg.fb, execS := cfg.execS,
    exec := fun i k => (scr.item i).exec k, fbOut := fun i => (scr.item i).fb, kind := kind }

/-- C06-C09, C11 (and C02 per item) for a run of a single batch node -/
def judgeBatchRoot (env : Env) (root : NodeId) (vis : NodeId → Nat) (cf : Bool) (o : RunObs) : List (String × Bool) :=
  match env.arena root with
  | .batch cfg =>
    let scr := env.batchBeh root (vis root)
    match scr.prep.res with
    | .error _ => []
    | .ok l =>
      let items := normItems cfg.shape l
      let c := concCfgOf env.kind cfg scr items.length
      let v := batchViewOf o
      -- "the run ends with post's own outcome": an action when post succeeds, post's error when post itself fails
      let v := match scr.post.res, o.out with
        | .error e, .err (.user e') => { v with outOk := e == e' }
        | _, _ => v
      if !cfg.hasPost then [] else
      [("C06", c06 c (items.map Result.box) v), ("C07", !cf || c07 c v), ("C08", c08 c (cfg.conc == 0) v),
       ("C09", c09 c v), ("C11", c11 c v), ("C02b", !cf || c02Batch c v),
       -- C17 inside batches: slot i is exactly what item i's exec / fallback returned
       ("C17b", ((List.range c.n).all fun i => slotMatches c v.events i (v.slots.getD i default))
          -- … and every attempt (and the fallback) on item i receives the item as it is: the `Result` itself for a
          -- Result-style exec function, its `Value()` for an Any-style one (`C17.batch_item_passed_as_is`)
          && o.trace.all fun e =>
              match e with
              | .bexec _ _ i _ a => (match items[i]? with | some it => a == execArg cfg.execS it.box | none => false)
              | .bfb _ _ i a _ => (match items[i]? with | some it => a == it.box | none => false)
              | _ => true)]
  | _ => []

/-- `Proofs.Payload.PlainPayloads`, decided on the attempts a script can reach (scripts are finite lists; beyond
    their end every attempt fails) -/
def plainPayloadsB (cfg : LeafCfg) (scr : LeafScript) : Bool :=
  (match prepValue cfg scr with | some pv => pv.asResult?.isNone | none => true)
  && (List.range 64).all fun k =>
      match (scr.exec k).res with
      | .ok y =>
        -- what exec hands on may itself be a (successful) `flyt.Result` — it reaches post wrapped exactly once like any
        -- other payload; only an ERROR Result used as a plain payload is outside C17 (it is indistinguishable from the
        -- error state of exec's own Result, boundary B2)
        (match (if cfg.execS = .res then (toResult y).valueOf else y).asResult? with
         | none => true
         | some r => !r.isError)
      | .error _ => true

/-- all property predicates for one run, on an observation `o` -/
def judgeRun (fuel : Nat) (env : Env) (ctx0 : Ctx) (root : NodeId) (vis : NodeId → Nat) (cancelFree : Bool)
    (o : RunObs) (flat ref : RunObs) (allPrep : Bool := true) : List (String × Bool) :=
  let segs := segments (noWaits o.trace)
  let leafSegs := segs.filterMap fun (k, seg) =>
    match env.arena k.1 with | .leaf cfg => some (cfg, env.leafBeh k.1 k.2, k, seg) | _ => none
  let c01 := leafSegs.all (fun (cfg, scr, k, seg) => c01Visit cfg scr k.1 k.2 seg)
    && (match env.arena root, segs with
        | .leaf cfg, [(k, seg)] => c01Outcome cfg (env.leafBeh k.1 k.2) seg o.out
        | .leaf _, [] => (match o.out with | .err _ => true | _ => false)
        | .leaf _, _ => false
        | _, _ => true)
  let c02 := leafSegs.all (fun (cfg, scr, _, seg) => c02Bounds cfg scr seg)
    && (!cancelFree || leafSegs.all (fun (cfg, scr, _, seg) => c02Visit cfg scr seg))
  let c03 := !cancelFree || Spec.c03 env root vis fuel o
  let c04 := !cancelFree || Spec.c04 env o
  -- C05 speaks of non-batch nodes and flows; a batch node run directly is judged by C11
  let c05 := (match env.arena root with | .batch _ => true | _ => false) || (Spec.c05 env ctx0 o ref && (ctx0 != .live || Spec.c05Wait env o))
  let c10 := Spec.c10 o flat
  -- C11 inside flows ("the run terminates"): once a callback of a batch node has cancelled the context, nothing of
  -- any other visit (of any node) follows; a batch node run directly is judged by `judgeBatchRoot`
  let c11f := (match env.arena root with | .batch _ => true | _ => false) || Spec.c11Flow env ctx0 o
  -- C17 speaks of payloads that are not themselves `flyt.Result`s (`Proofs.Payload.PlainPayloads`, boundary B2)
  let c17 := leafSegs.all (fun (cfg, scr, _, seg) => (!plainPayloadsB cfg scr || (c17Visit cfg scr seg && c17ExecKept cfg scr seg)) && c17Fallback cfg scr seg)
  let c18 := Spec.c18 o && (!cancelFree || !allPrep || Spec.c18Followed env root o)
  let bj := judgeBatchRoot env root vis cancelFree o
  let c02 := c02 && (bj.all fun (k, b) => k != "C02b" || b)
  let c17 := c17 && (bj.all fun (k, b) => k != "C17b" || b)
  [("C01", c01), ("C02", c02), ("C03", c03), ("C04", c04), ("C05", c05), ("C10", c10), ("C17", c17), ("C18", c18)]
    ++ (match env.arena root with | .batch _ => [] | _ => [("C11", c11f)])
    ++ bj.filter (fun p => p.1 != "C02b" && p.1 != "C17b")

def process (sc : ScJ) (obs : ObsJ) : Except String Verdict := do
  let kind ← match sc.kind with
    | "canceled" => pure CtxKind.canceled | "deadline" => pure CtxKind.deadline
    -- a context cancelled with a custom cause, or cancelled by hand long before a far deadline, reports context.Canceled
    | "cause" => pure CtxKind.canceled | "fardeadline" => pure CtxKind.canceled | "child" => pure CtxKind.canceled | "neardeadline" => pure CtxKind.deadline
    | k => throw s!"bad kind {k}"
  let ctx0 ← match sc.ctx0 with
    | "live" => pure Ctx.live | "done" => pure (Ctx.done kind) | k => throw s!"bad ctx0 {k}"
  let nodes ← sc.nodes.mapM fun n =>
    match nodeDefOf n with | some d => pure (n.id, d) | none => throw s!"bad node {n.id}"
  let leafScripts ← sc.leafScripts.mapM fun j =>
    match leafScriptOf j with | some s => pure ((j.n, j.v), s) | none => throw s!"bad leaf script {j.n}.{j.v}"
  let batchScripts ← sc.batchScripts.mapM fun j =>
    match batchScriptOf j with | some s => pure ((j.n, j.v), s) | none => throw s!"bad batch script {j.n}.{j.v}"
  let nodeDefaults ← (sc.nodeDefaults.getD []).mapM fun j =>
    match leafScriptOf j with | some s => pure (j.n, s) | none => throw s!"bad default script of node {j.n}"
  let leafBeh : NodeId → Nat → LeafScript := fun n v =>
    match leafScripts.find? (fun p => p.1 == (n, v)) with
    | some p => p.2
    | none => match nodeDefaults.find? (fun p => p.1 == n) with | some p => p.2 | none => defaultLeafScript
  let batchBeh : NodeId → Nat → BatchScript := fun n v =>
    match batchScripts.find? (fun p => p.1 == (n, v)) with | some p => p.2 | none => defaultBatchScript
  let cancelFree := ctx0 == .live
    && sc.leafScripts.all (fun j => !(j.prep.endsWith "*" || j.fb.endsWith "*" || j.post.endsWith "*"
          || j.exec.any (·.endsWith "*")) && j.waitCancel.isEmpty)
    && sc.batchScripts.all (fun j => !(j.prep.endsWith "*" || j.post.endsWith "*"
          || j.items.any (fun it => it.fb.endsWith "*" || it.exec.any (·.endsWith "*") || !it.waitCancel.isEmpty)))
  let wide := hasWideBatch (nodes.map (·.2))
  let mut arena : List (Nat × NodeDef) := nodes
  let mut vis : NodeId → Nat := fun _ => 0
  let mut implRuns := obs.runs
  let mut agree := true
  let mut spec : List (String × Bool) := []
  let mut specModel : List (String × Bool) := []
  let mut nontrivial : List (String × Bool) := []
  let mut modelRuns : List RunObsJ := []
  let mut ios : Array RunObs := #[]
  let mut ms : Array RunObs := #[]
  for st in sc.steps do
    match st.run, st.connect with
    | none, some c =>
      arena := arena.map fun (id, d) =>
        if id == c.flow then
          match d with
          | .flow s ops => (id, .flow s (ops ++ [⟨c.src, c.action, c.dst⟩]))
          | d => (id, d)
        else (id, d)
    | some root, none =>
      let ar := arena
      let arenaFn : NodeId → NodeDef := fun n =>
        match ar.find? (fun p => p.1 == n) with | some p => p.2 | none => .flow none []
      let env : Env := { kind, arena := arenaFn, leafBeh, batchBeh }
      let st0 : RunSt := { ctx := ctx0, visits := vis }
      -- the recursion depth grows with the length of the path: long scripted loops get the fuel they need
      let fuel := max FUEL (3 * (sc.leafScripts.length + (sc.longest.getD 0)) + 200)
      let r := runNode env fuel root 0 st0
      let m := obsOf r
      let flat := obsOf (Flat.run env (fuel * 10) root 0 st0)
      let ref := obsOf (runNode (noCancelEnv env) fuel root 0 { ctx := .live, visits := vis })
      if m.out == .fuel then throw "model out of fuel"
      let (ij, rest) ← match implRuns with
        | ij :: rest => pure (ij, rest)
        | [] => throw "missing run observation"
      implRuns := rest
      let io ← match parseRunObs ij with | some o => pure o | none => throw "bad run observation"
      -- Flow.Run returns only the error: a successful run's action is not observable there
      let io := if io.out == .ok "*" then (match m.out with | .ok a => { io with out := .ok a } | _ => io) else io
      let (io, m, flat, ref) := if wide then (canon io, canon m, canon flat, canon ref) else (io, m, flat, ref)
      agree := agree && (io == m)
      ios := ios.push io
      ms := ms.push m
      -- `c18Followed` reads visits off the callback trace: every leaf must have a prep callback (`C18.c18Followed_bridge`'s `hprep`)
      let allPrep := nodes.all fun p => match p.2 with | .leaf c => c.prepS != .absent | _ => true
      for (k, b) in judgeRun fuel env ctx0 root vis cancelFree io flat ref allPrep do spec := andAll spec k b
      for (k, b) in judgeRun fuel env ctx0 root vis cancelFree m flat ref allPrep do specModel := andAll specModel k b
      -- non-triviality per property (measured on the model's run)
      let tr := m.trace
      let nExec := (tr.filter isExecEv).length
      let nSeg := (segments tr).length
      let anyFail := tr.any (fun e => match e with
        | .exec n v k _ => (errOf ((leafBeh n v).exec k)).isSome | _ => false)
      let nested := (nodes.filter (fun p => match p.2 with | .flow .. => true | _ => false)).length ≥ 2
      let funcStyle := nodes.any (fun p => match p.2 with
        | .leaf c => c.prepS == .res || c.prepS == .any || c.execS == .res || c.execS == .any || c.postS == .res || c.postS == .any
        | _ => false)
      let emptyAct := sc.leafScripts.any (fun j => j.post == "=" || j.post == "=*") || sc.batchScripts.any (fun j => j.post == "=")
      nontrivial := orAll nontrivial "C01" (nExec ≥ 1)
      nontrivial := orAll nontrivial "C02" (anyFail && cancelFree)
      nontrivial := orAll nontrivial "C03" (nSeg ≥ 2 && cancelFree)
      nontrivial := orAll nontrivial "C04" (cancelFree && (match m.out with | .err _ => true | _ => false))
      nontrivial := orAll nontrivial "C05" (!cancelFree)
      nontrivial := orAll nontrivial "C10" (nested && nSeg ≥ 2)
      nontrivial := orAll nontrivial "C17" (funcStyle && nExec ≥ 1)
      nontrivial := orAll nontrivial "C18" (emptyAct && (match m.out with | .ok _ => true | _ => false))
      let nBexec := (tr.filter fun e => match e with | .bexec .. => true | _ => false).length
      let slotErr := tr.any fun e => match e with
        | .bpost _ _ _ _ sl => sl.any (fun v => match v with | .res _ (some _) => true | _ => false) | _ => false
      let stopMode := nodes.any fun p => match p.2 with | .batch c => c.stop | _ => false
      nontrivial := orAll nontrivial "C06" (nBexec ≥ 2)
      nontrivial := orAll nontrivial "C07" (nBexec ≥ 2 && slotErr && !stopMode)
      nontrivial := orAll nontrivial "C08" (nBexec ≥ 2)
      nontrivial := orAll nontrivial "C09" (slotErr && stopMode)
      nontrivial := orAll nontrivial "C11" (!cancelFree && nBexec ≥ 1)
      modelRuns := modelRuns ++ [runObsToJ m]
      vis := r.2.1.visits
    | _, _ => throw "bad step"
  if !implRuns.isEmpty then throw "extra run observations"
  let pairs := sc.pairs.getD []
  if !pairs.isEmpty then
    let judgePairs (runs : Array RunObs) : Bool := pairs.all fun p =>
      match p with
      | [i, j] => (match runs[i]?, runs[j]? with | some a, some b => sameUpToNode a b | _, _ => false)
      | _ => false
    spec := andAll spec "C19" (judgePairs ios)
    specModel := andAll specModel "C19" (judgePairs ms)
    nontrivial := orAll nontrivial "C19" true
  pure { agree, spec, specModel, nontrivial, model := modelRuns }
where
  canon (o : RunObs) : RunObs :=
    -- order-insensitive comparison of batch item events: sort the textual events inside the trace
    -- between bprep and bpost of each segment
    let segs := segments o.trace
    let tr := segs.flatMap fun (_, seg) =>
      match seg with
      | (.bprep ..) :: _ =>
        let head := seg.filter (fun e => match e with | .bprep .. => true | _ => false)
        let tail := seg.filter (fun e => match e with | .bpost .. => true | _ => false)
        let mid := seg.filter (fun e => match e with | .bprep .. => false | .bpost .. => false | _ => true)
        let midSorted := (mid.map evStr).toArray.qsort (· < ·) |>.toList
        head ++ (midSorted.filterMap parseEv) ++ tail
      | _ => seg
    { o with trace := tr }

def verdictJson (v : Verdict) : Json :=
  let kv (l : List (String × Bool)) : Json := Json.mkObj (l.map fun (k, b) => (k, Json.bool b))
  Json.mkObj [("agree", Json.bool v.agree), ("spec", kv v.spec), ("specModel", kv v.specModel),
    ("nontrivial", kv v.nontrivial), ("model", toJson v.model)]

def allKeys : List String :=
  ["C01", "C02", "C03", "C04", "C05", "C06", "C07", "C08", "C09", "C10", "C11", "C17", "C18", "C19"]

def handle (sc obs : Json) : Json :=
  match fromJson? (α := ScJ) sc, fromJson? (α := ObsJ) obs with
  | .ok s, .ok o =>
    -- "H": the run did not return within the harness watchdog. The model always terminates, so this is a
    -- disagreement, and a violation of every property judged on this run.
    if o.runs.any (fun r => r.out == "H" || r.out == "P") then
      Json.mkObj [("agree", Json.bool false),
        ("spec", Json.mkObj (allKeys.map fun k => (k, Json.bool false))),
        ("specModel", Json.mkObj (allKeys.map fun k => (k, Json.bool true))),
        ("nontrivial", Json.mkObj []),
        ("model", Json.str "the implementation did not return (watchdog \"H\") or panicked (\"P\"); the model terminates normally")]
    else
    match process s o with
    | .ok v => verdictJson v
    | .error e => Json.mkObj [("badop", Json.str e)]
  | .error e, _ => Json.mkObj [("badop", Json.str s!"scenario: {e}")]
  | _, .error e => Json.mkObj [("badop", Json.str s!"observation: {e}")]

end Driver.FlowFam
