import Lean.Data.Json
import FlytModel.Spec.Bind
/-!
# Driver, family `bind`: SharedStore.Bind / Result.Bind / MustBind against the encoding/json reference (C16)

The scenario names a value (builder, seed, declared type tag), its presence, and a destination (kind,
declared element type tag, initial contents).  The observation carries the reference outcome computed
by the harness with encoding/json (the model's codec parameter for this input) and four call reports.
-/
open Lean Flyt.Bind Flyt.Spec

namespace Driver.BindFam

structure ValJ where
  b : String
  n : Nat
  deriving FromJson, ToJson

structure DestJ where
  kind : String
  ty : String
  init : Option ValJ := none
  deriving FromJson, ToJson

structure ScJ where
  pres : String
  val : Option ValJ := none
  vty : String
  key : String
  dest : DestJ
  /-- the generator's own expectation of the reference outcome ("" = not declared) -/
  exp : String := ""
  deriving FromJson, ToJson

structure CallJ where
  cls : String
  init : Bool
  src : Bool
  ref : Bool
  same : Bool
  wraps : Bool
  deriving FromJson, ToJson

structure ObsJ where
  ref : String
  store : CallJ
  result : CallJ
  mustStore : CallJ
  mustResult : CallJ
  deriving FromJson, ToJson

def parseKind : String → Option DestKind
  | "untyped" => some .untypedNil | "nonptr" => some .nonPointer | "nilptr" => some .nilPointer
  | "ptr" => some .ptr | _ => none

def parsePres : String → Option Presence
  | "missing" => some .missing | "nil" => some .nilVal | "val" => some .val | _ => none

def parseRef : String → Option RefClass
  | "ok" => some .ok | "marshal" => some .marshalErr | "unmarshal" => some .unmarshalErr | "na" => some .na
  | _ => none

def parseClass : String → Option Class
  | "ok" => some .ok | "key" => some .keyErr | "nilres" => some .nilErr | "dest" => some .destErr
  | "marshal" => some .marshalErr | "unmarshal" => some .unmarshalErr | "other" => some .otherErr
  | "mustpanic" => some .mustPanic | "panic" => some .panic | "timeout" => some .timeout | _ => none

def classStr : Class → String
  | .ok => "ok" | .keyErr => "key" | .nilErr => "nilres" | .destErr => "dest" | .marshalErr => "marshal"
  | .unmarshalErr => "unmarshal" | .otherErr => "other" | .mustPanic => "mustpanic" | .panic => "panic"
  | .timeout => "timeout"

def callOf (j : CallJ) : Except String CallObs :=
  match parseClass j.cls with
  | some c => pure { cls := c, destInit := j.init, destSrc := j.src, destRef := j.ref, srcSame := j.same, wraps := j.wraps }
  | none => throw s!"bad class {j.cls}"

def callToJ (o : CallObs) : CallJ :=
  { cls := classStr o.cls, init := o.destInit, src := o.destSrc, ref := o.destRef, same := o.srcSame, wraps := o.wraps }

def process (sc : ScJ) (obs : ObsJ) : Except String Json := do
  let kind ← match parseKind sc.dest.kind with | some k => pure k | none => throw s!"bad dest kind {sc.dest.kind}"
  let pres ← match parsePres sc.pres with | some p => pure p | none => throw s!"bad presence {sc.pres}"
  let ref ← match parseRef obs.ref with | some r => pure r | none => throw s!"bad reference class {obs.ref}"
  if (pres == .val) != sc.val.isSome then throw "presence and value disagree"
  if pres == .val && sc.vty.isEmpty then throw "value without a type tag"
  if kind != .untypedNil && sc.dest.ty.isEmpty then throw "destination without a type tag"
  if kind == .untypedNil && !sc.dest.ty.isEmpty then throw "untyped nil destination with a type tag"
  let same := pres == .val && kind != .untypedNil && sc.vty == sc.dest.ty
  let cs : Case := { dest := kind, pres, same, ref }
  if !caseWf cs then throw s!"ill-formed case (dest {sc.dest.kind}, reference {obs.ref})"
  if !sc.exp.isEmpty && sc.exp != obs.ref then
    throw s!"reference outcome {obs.ref} differs from the generator's declaration {sc.exp}"
  let impl : Obs := { store := ← callOf obs.store, result := ← callOf obs.result,
                      mustStore := ← callOf obs.mustStore, mustResult := ← callOf obs.mustResult }
  let m := modelObs cs
  let kv (b : Bool) : Json := Json.mkObj [("C16", Json.bool b)]
  pure <| Json.mkObj [
    ("agree", Json.bool (m.matches impl)),
    ("spec", kv (c16 cs impl)),
    ("specModel", kv (c16 cs m)),
    ("nontrivial", kv (c16Nontrivial cs)),
    ("model", Json.mkObj [("same", Json.bool same), ("store", toJson (callToJ m.store)),
      ("result", toJson (callToJ m.result)), ("mustStore", toJson (callToJ m.mustStore)),
      ("mustResult", toJson (callToJ m.mustResult))])]

def handle (sc obs : Json) : Json :=
  match fromJson? (α := ScJ) sc, fromJson? (α := ObsJ) obs with
  | .ok s, .ok o =>
    match process s o with
    | .ok v => v
    | .error e => Json.mkObj [("badop", Json.str e)]
  | .error e, _ => Json.mkObj [("badop", Json.str s!"scenario: {e}")]
  | _, .error e => Json.mkObj [("badop", Json.str s!"observation: {e}")]

end Driver.BindFam
