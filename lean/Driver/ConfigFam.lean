import Lean.Data.Json
import FlytModel.Spec.Config
/-!
# Driver, family `config` (property C19): constructor options vs. builder methods

Scenario: `{"kind":"node"|"batch","steps":[{"s":…,"form":"opt"|"bld","n":…,"b":…,"tag":…,"raw":…}]}`
or `{"kind":"pool","pool":k}`. `s` ∈ retries | wait | conc | eh | prep | exec | post | fb; `n` is the value of a
numeric setting (wait in ns), `b` the argument of `WithBatchErrorHandling` or, for a function setting,
"Any-style". `raw` (an option passed as a bare `func(*BaseNode)`) does not change the model: both Go types
land in the same `baseOpts` slice.
-/
open Lean Flyt.Config

namespace Driver.ConfigFam

structure StepJ where
  s : String
  form : String
  n : Int
  b : Bool
  tag : Nat
  raw : Bool := false
  deriving FromJson, ToJson

structure ScJ where
  kind : String
  steps : List StepJ
  pool : Int
  deriving FromJson, ToJson

structure GettersJ where
  retries : Int
  wait : Int
  conc : Int
  eh : String
  deriving FromJson, ToJson

structure RunJ where
  prep : Option Nat
  exec : Option Nat
  fb : Option Nat
  post : Option Nat
  calls : List Nat
  out : String
  deriving FromJson, ToJson

structure ObsJ where
  g : GettersJ
  runA : RunJ
  runB : RunJ
  hwm : Nat
  g2 : GettersJ
  err : String
  deriving FromJson, ToJson

structure PoolObsJ where
  hwm : Nat
  err : String
  deriving FromJson, ToJson

def settingOf (j : StepJ) : Except String Setting :=
  match j.s with
  | "retries" => pure (.maxRetries j.n)
  | "wait" => pure (.wait j.n)
  | "conc" => pure (.batchConcurrency j.n)
  | "eh" => pure (.batchErrorHandling j.b)
  | "prep" => pure (.prepFn j.b)
  | "exec" => pure (.execFn j.b)
  | "post" => pure (.postFn j.b)
  | "fb" => if j.b then throw "fb has no Any-style" else pure .fbFn
  | s => throw s!"unknown setting {s}"

def stepOf (j : StepJ) : Except String Step := do
  let setting ← settingOf j
  let form ← match j.form with
    | "opt" => pure Form.opt | "bld" => pure Form.bld | f => throw s!"unknown form {f}"
  if j.tag ≥ probeExec then throw s!"tag {j.tag} is reserved for the probes"
  if j.raw && !(setting.isNodeOption && form == .opt) then throw "raw applies to NodeOption options only"
  pure { setting, form, tag := j.tag }

def gettersOf (j : GettersJ) : Getters := { retries := j.retries, wait := j.wait, conc := j.conc, eh := j.eh }
def gettersJ (g : Getters) : GettersJ := { retries := g.retries, wait := g.wait, conc := g.conc, eh := g.eh }
def runOf (j : RunJ) : RunObs :=
  { prep := j.prep, exec := j.exec, fb := j.fb, post := j.post, calls := j.calls, out := j.out }
def runJ (r : RunObs) : RunJ :=
  { prep := r.prep, exec := r.exec, fb := r.fb, post := r.post, calls := r.calls, out := r.out }
def obsOf (j : ObsJ) : Obs :=
  { g := gettersOf j.g, runA := runOf j.runA, runB := runOf j.runB, hwm := j.hwm, g2 := gettersOf j.g2, err := j.err }
def obsJ (o : Obs) : ObsJ :=
  { g := gettersJ o.g, runA := runJ o.runA, runB := runJ o.runB, hwm := o.hwm, g2 := gettersJ o.g2, err := o.err }

def verdict (agree spec specModel nontriv : Bool) (model : Json) : Json :=
  let kv (b : Bool) : Json := Json.mkObj [("C19", Json.bool b)]
  Json.mkObj [("agree", Json.bool agree), ("spec", kv spec), ("specModel", kv specModel),
    ("nontrivial", kv nontriv), ("model", model)]

def processCfg (k : Kind) (sc : ScJ) (obs : Json) : Except String Json := do
  let steps ← sc.steps.mapM stepOf
  if !(steps.all (inDomain k)) then throw "step outside the domain of this builder kind"
  let oj ← match fromJson? (α := ObsJ) obs with
    | .ok o => pure o | .error e => throw s!"observation: {e}"
  let io := obsOf oj
  let m := modelObs k steps
  pure (verdict (decide (io = m)) (c19 k steps io) (c19 k steps m) (nontrivial k steps) (toJson (obsJ m)))

def processPool (sc : ScJ) (obs : Json) : Except String Json := do
  if !sc.steps.isEmpty then throw "pool scenario with steps"
  let oj ← match fromJson? (α := PoolObsJ) obs with
    | .ok o => pure o | .error e => throw s!"observation: {e}"
  let m := poolWorkers sc.pool
  let ok := oj.err == ""
  pure (verdict (ok && oj.hwm == m) (ok && c19Pool sc.pool oj.hwm) (c19Pool sc.pool m) (decide (sc.pool ≤ 0))
    (toJson ({ hwm := m, err := "" } : PoolObsJ)))

def handle (sc obs : Json) : Json :=
  match fromJson? (α := ScJ) sc with
  | .error e => Json.mkObj [("badop", Json.str s!"scenario: {e}")]
  | .ok s =>
    let r := match s.kind with
      | "node" => processCfg .node s obs
      | "batch" => processCfg .batch s obs
      | "pool" => processPool s obs
      | k => .error s!"unknown kind {k}"
    match r with
    | .ok v => v
    | .error e => Json.mkObj [("badop", Json.str e)]

end Driver.ConfigFam
