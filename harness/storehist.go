package main

// Family "storehist" (dynamic side of property C13): 2..6 goroutines issue random operations over a
// small key space against ONE real flyt.SharedStore; every invocation and response is stamped with a
// monotonic logical clock (one atomic counter), and the recorded history is checked for
// linearizability against the sequential map specification by the backtracking search below
// (Wing-Gong with memoisation on (linearised set, map state)). The linearisation found is sent along
// as a witness; the Lean driver re-validates it (permutation, real-time order, sequential replay on
// the Lean model) and answers spec=false when there is none or it does not validate.

import (
	"fmt"
	"os"
	"sort"
	"strconv"
	"strings"
	"sync"
	"sync/atomic"
	"time"

	"github.com/mark3labs/flyt"
)

const (
	histMaxOps     = 24
	histWatchdog   = 10 * time.Second
	histNodeBudget = 5_000_000
)

type HistScenario struct {
	Keys []string   `json:"keys"`
	Prog [][]string `json:"prog"` // per goroutine: the operations it issues, in order
	// filled in by the run, ordered by invocation time:
	Ops []string `json:"ops"`
	Thr []int    `json:"thr"`
	Inv []int    `json:"inv"`
	Ret []int    `json:"ret"`
	// replay only: how often to re-run the program looking for a non-linearizable history
	tries int
}

type HistObs struct {
	Resps []string `json:"resps"`
	Found bool     `json:"found"`
	Order []int    `json:"order"`
	Nodes int      `json:"nodes"` // search effort
	Runs  int      `json:"runs"`
}

func (j *jobList) addHist(sc HistScenario) {
	s := sc
	j.jobs = append(j.jobs, job{fam: "storehist", sc: &s, run: func() any { return execHistScenario(&s) }})
}

type hop struct {
	thr      int
	op       sop
	inv, ret int64 // logical clock; ret is published (atomically) after resp is written
	resp     string
}

// histDo: one store call without any caller-side bookkeeping (safe to call concurrently)
func histDo(st *flyt.SharedStore, enc *storeRun, o sop) (resp string) {
	defer func() {
		if e := recover(); e != nil {
			resp = "P"
		}
	}()
	switch o.code {
	case "g":
		v, ok := st.Get(enc.key(o.a))
		return "g" + strconv.Itoa(storeTok(v)) + ":" + b01(ok)
	case "s":
		st.Set(enc.key(o.a), storeVal(o.b))
		return "u"
	case "h":
		return "b" + b01(st.Has(enc.key(o.a)))
	case "d":
		st.Delete(enc.key(o.a))
		return "u"
	case "c":
		st.Clear()
		return "u"
	case "l":
		return "n" + strconv.Itoa(st.Len())
	case "k":
		return enc.encKeys(st.Keys())
	case "a":
		return enc.encMap(st.GetAll())
	case "mn":
		st.Merge(nil)
		return "u"
	case "ml":
		m := make(map[string]any, len(o.lit))
		for i := len(o.lit) - 1; i >= 0; i-- {
			m[enc.key(o.lit[i][0])] = storeVal(o.lit[i][1])
		}
		st.Merge(m)
		return "u"
	}
	panic("storehist: op not allowed in a concurrent history: " + o.code)
}

// runHistory runs the per-goroutine programs concurrently against one fresh store.
func runHistory(keys []string, prog [][]sop) (hist []hop, hung bool) {
	enc := newStoreRun(keys)
	st := enc.st
	var clock int64
	per := make([][]hop, len(prog))
	var ready, done sync.WaitGroup
	var start int32 // goroutines spin on it so that all of them are running when the history begins
	for t := range prog {
		per[t] = make([]hop, len(prog[t]))
		for i, o := range prog[t] {
			per[t][i] = hop{thr: t, op: o}
		}
		ready.Add(1)
		done.Add(1)
		go func(t int) {
			defer done.Done()
			ready.Done()
			for atomic.LoadInt32(&start) == 0 {
			}
			jitter := uint64(t)*0x9E3779B97F4A7C15 + uint64(len(per[t]))
			for i := range per[t] {
				h := &per[t][i]
				// a short data-independent pause, so that operations of different goroutines overlap
				// in varying ways (timing is not part of the scenario: the history is what is judged)
				jitter = jitter*6364136223846793005 + 1442695040888963407
				for spin := jitter >> 58; spin > 0; spin-- {
					atomic.LoadInt32(&start)
				}
				atomic.StoreInt64(&h.inv, atomic.AddInt64(&clock, 1))
				r := histDo(st, enc, h.op)
				h.resp = r
				atomic.StoreInt64(&h.ret, atomic.AddInt64(&clock, 1))
			}
		}(t)
	}
	ready.Wait()
	atomic.StoreInt32(&start, 1)
	fin := make(chan struct{})
	go func() { done.Wait(); close(fin) }()
	tm := time.NewTimer(histWatchdog)
	defer tm.Stop()
	select {
	case <-fin:
	case <-tm.C:
		hung = true
	}
	for t := range per {
		for i := range per[t] {
			h := &per[t][i]
			inv, ret := atomic.LoadInt64(&h.inv), atomic.LoadInt64(&h.ret)
			if inv == 0 {
				break // never invoked
			}
			c := hop{thr: t, op: h.op, inv: inv, ret: ret}
			if ret != 0 {
				c.resp = h.resp
			} else { // invoked, never returned
				c.resp = "T"
				c.ret = 1 << 40
			}
			hist = append(hist, c)
		}
	}
	sort.Slice(hist, func(i, j int) bool { return hist[i].inv < hist[j].inv })
	return hist, hung
}

// ---- sequential specification (Go side of the search; the Lean side re-checks the witness) ----

type seqMap map[int]int // key index -> value token

func (m seqMap) clone() seqMap {
	c := make(seqMap, len(m))
	for k, v := range m {
		c[k] = v
	}
	return c
}

func (m seqMap) sortedKeys() []int {
	ks := make([]int, 0, len(m))
	for k := range m {
		ks = append(ks, k)
	}
	sort.Ints(ks)
	return ks
}

func (m seqMap) String() string {
	var b strings.Builder
	for _, k := range m.sortedKeys() {
		b.WriteString(strconv.Itoa(k))
		b.WriteByte(':')
		b.WriteString(strconv.Itoa(m[k]))
		b.WriteByte(',')
	}
	return b.String()
}

// seqApply mutates m and returns the response a plain map gives
func seqApply(m seqMap, o sop) string {
	switch o.code {
	case "g":
		v, ok := m[o.a]
		return "g" + strconv.Itoa(v) + ":" + b01(ok)
	case "s":
		m[o.a] = o.b
		return "u"
	case "h":
		_, ok := m[o.a]
		return "b" + b01(ok)
	case "d":
		delete(m, o.a)
		return "u"
	case "c":
		for k := range m {
			delete(m, k)
		}
		return "u"
	case "l":
		return "n" + strconv.Itoa(len(m))
	case "k":
		ks := m.sortedKeys()
		parts := make([]string, len(ks))
		for i, k := range ks {
			parts[i] = strconv.Itoa(k)
		}
		return "k" + strings.Join(parts, ",")
	case "a":
		ks := m.sortedKeys()
		parts := make([]string, len(ks))
		for i, k := range ks {
			parts[i] = strconv.Itoa(k) + ":" + strconv.Itoa(m[k])
		}
		return "m" + strings.Join(parts, ",")
	case "mn":
		return "u"
	case "ml":
		for i := len(o.lit) - 1; i >= 0; i-- {
			m[o.lit[i][0]] = o.lit[i][1]
		}
		return "u"
	}
	panic("storehist: no sequential spec for " + o.code)
}

// linearize searches for a linearisation of a complete history (at most histMaxOps operations).
// ok=false, gaveUp=false: the search space is exhausted, the history is not linearizable.
func linearize(h []hop) (order []int, ok bool, nodes int, gaveUp bool) {
	n := len(h)
	if n > 30 {
		return nil, false, 0, true
	}
	all := uint32(1)<<uint(n) - 1
	dead := map[string]bool{}
	var dfs func(done uint32, st seqMap) bool
	dfs = func(done uint32, st seqMap) bool {
		if done == all {
			return true
		}
		nodes++
		if nodes > histNodeBudget {
			gaveUp = true
			return false
		}
		key := strconv.FormatUint(uint64(done), 16) + "|" + st.String()
		if dead[key] {
			return false
		}
		minRet := int64(1) << 62
		for i := 0; i < n; i++ {
			if done&(1<<uint(i)) == 0 && h[i].ret < minRet {
				minRet = h[i].ret
			}
		}
		for i := 0; i < n; i++ {
			if done&(1<<uint(i)) != 0 || h[i].inv > minRet {
				continue // some other pending operation returned before this one was invoked
			}
			st2 := st.clone()
			if seqApply(st2, h[i].op) != h[i].resp {
				continue
			}
			order = append(order, i)
			if dfs(done|1<<uint(i), st2) {
				return true
			}
			order = order[:len(order)-1]
			if gaveUp {
				return false
			}
		}
		dead[key] = true
		return false
	}
	ok = dfs(0, seqMap{})
	if !ok {
		order = nil
	}
	return order, ok, nodes, gaveUp
}

func execHistScenario(sc *HistScenario) any {
	if atomic.LoadInt32(&storeHangs) >= storeMaxHangs {
		sc.Prog, sc.Ops, sc.Thr, sc.Inv, sc.Ret = [][]string{}, []string{}, []int{}, []int{}, []int{}
		return HistObs{Resps: []string{}, Found: true, Order: []int{}}
	}
	prog := make([][]sop, len(sc.Prog))
	total := 0
	for t, p := range sc.Prog {
		prog[t] = mustParseOps(p)
		total += len(p)
	}
	if total > histMaxOps {
		fmt.Fprintln(os.Stderr, "storehist: history too long")
		os.Exit(2)
	}
	tries := sc.tries
	if tries < 1 {
		tries = 1
	}
	var hist []hop
	var obs HistObs
	for run := 1; run <= tries; run++ {
		var hung bool
		hist, hung = runHistory(sc.Keys, prog)
		obs = HistObs{Order: []int{}, Runs: run}
		if hung {
			atomic.AddInt32(&storeHangs, 1)
		}
		if !hung {
			order, ok, nodes, gaveUp := linearize(hist)
			if gaveUp {
				fmt.Fprintln(os.Stderr, "storehist: linearizability search exceeded its node budget")
				os.Exit(3)
			}
			obs.Found, obs.Nodes = ok, nodes
			if ok {
				obs.Order = order
			}
		}
		if !obs.Found {
			break
		}
	}
	n := len(hist)
	sc.Ops, sc.Thr, sc.Inv, sc.Ret = make([]string, n), make([]int, n), make([]int, n), make([]int, n)
	obs.Resps = make([]string, n)
	for i, h := range hist {
		sc.Ops[i], sc.Thr[i], sc.Inv[i], sc.Ret[i] = h.op.String(), h.thr, int(h.inv), int(h.ret)
		obs.Resps[i] = h.resp
	}
	return obs
}

// ---- generator ----

func genHistProgram(r *rng) HistScenario {
	threads := 2 + r.intn(5)
	nk := 1 + r.intn(3)
	keys := append([]string{}, []string{"", "é", "k2"}[:nk]...)
	total := 8 + r.intn(histMaxOps-7)
	per := total / threads
	if per < 1 {
		per = 1
	}
	key := func() int { return r.intn(nk) }
	val := func() int { return r.intn(8) } // nil, int, string, *int, map, slice, struct, float
	prog := make([][]string, threads)
	for t := range prog {
		ops := make([]sop, 0, per)
		for len(ops) < per {
			w := r.intn(100)
			switch {
			case w < 22:
				ops = append(ops, sop{code: "s", a: key(), b: val()})
			case w < 34:
				ops = append(ops, sop{code: "g", a: key()})
			case w < 40:
				ops = append(ops, sop{code: "h", a: key()})
			case w < 48:
				ops = append(ops, sop{code: "d", a: key()})
			case w < 54:
				ops = append(ops, sop{code: "c"})
			case w < 62:
				ops = append(ops, sop{code: "l"})
			case w < 70:
				ops = append(ops, sop{code: "k"})
			case w < 80:
				ops = append(ops, sop{code: "a"})
			case w < 82:
				ops = append(ops, sop{code: "mn"})
			default:
				o := sop{code: "ml", lit: [][2]int{}}
				for k := 0; k < nk; k++ { // mostly all keys: a torn Merge is then visible to Len/Keys/GetAll
					if r.chance(85) {
						o.lit = append(o.lit, [2]int{k, val()})
					}
				}
				ops = append(ops, o)
			}
		}
		prog[t] = storeOps(ops)
	}
	return HistScenario{Keys: keys, Prog: prog}
}

func genC13stress(r *rng, thorough bool, add func(HistScenario)) {
	n := 400
	if thorough {
		n = 6000
	}
	for i := 0; i < n; i++ {
		add(genHistProgram(r))
	}
}
