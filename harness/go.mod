module flytverif/harness

go 1.23

require github.com/mark3labs/flyt v0.0.0

replace github.com/mark3labs/flyt => /repo
