package main

import (
	"fmt"
	"strconv"
	"strings"
	"testing"
)

func TestQuiesceDebug(t *testing.T) {
	n, c := 23, 13
	var prep []string
	var items []GItem
	for i := 0; i < n; i++ {
		prep = append(prep, "rt"+strconv.Itoa(100+i))
		items = append(items, GItem{Exec: []string{"t" + strconv.Itoa(200+i)}, Fb: "t1"})
	}
	for it := 0; it < 200; it++ {
		sc := GBatchSc{N: n, Conc: c, Budget: 1, Fb: "pass", ExecS: "res", Kind: "deadline", Prep: strings.Join(prep, ","), Items: items}
		var dl []string
		dumpLog = &dl
		obs, _ := execGBatch(&sc, func(step int, parked [][2]int, cancelled bool) string {
			if len(parked) == 0 {
				return ""
			}
			return "r" + strconv.Itoa(parked[0][0])
		})
		if len(obs.Phases[0]) != c {
			t.Fatalf("iter %d: phase0 has %d starts: %v\nLAST DUMP:\n%s", it, len(obs.Phases[0]), obs.Phases[0], dl[0]+"\n=======SECOND\n"+dl[1])
		}
	}
	fmt.Println("ok")
}
