// Package racetest hammers every method of flyt.SharedStore from many goroutines. It is meant to be
// run under the race detector (`go test -race`, see tools/racetest.sh; `./check C13 thorough` runs it
// through the "extra" entry of props.json): a data race inside the store, or between the store and
// an object it handed out (GetAll / Keys) or received (Merge), fails the test.
package racetest
