package racetest

import (
	"fmt"
	"sync"
	"sync/atomic"
	"testing"
	"time"

	"github.com/mark3labs/flyt"
)

type bindTarget struct {
	A int    `json:"a"`
	B string `json:"b"`
}

// one call of method number m; every value written is immutable or owned by the store afterwards
func callMethod(st *flyt.SharedStore, m int, k string, g, i int) {
	switch m {
	case 0:
		st.Set(k, i)
	case 1:
		st.Get(k)
	case 2:
		all := st.GetAll()
		all[k] = g // the copy is ours: writing to it must not race with anybody
		all["own"] = i
		delete(all, k)
	case 3:
		m := map[string]any{k: i, "m": fmt.Sprint(g)}
		st.Merge(m)
		m[k] = -1 // the argument stays ours after Merge returns
		delete(m, "m")
	case 4:
		st.Merge(nil)
	case 5:
		st.Has(k)
	case 6:
		st.Delete(k)
	case 7:
		if i%64 == 0 {
			st.Clear()
		}
	case 8:
		ks := st.Keys()
		for j := range ks {
			ks[j] = "x" // the slice is ours
		}
		_ = append(ks, "y")
	case 9:
		st.Len()
	case 10:
		st.GetString(k)
		st.GetStringOr(k, "d")
	case 11:
		st.GetInt(k)
		st.GetIntOr(k, 7)
	case 12:
		st.GetFloat64(k)
		st.GetFloat64Or(k, 1.5)
	case 13:
		st.GetBool(k)
		st.GetBoolOr(k, true)
	case 14:
		func() {
			// GetSlice panics on a stored map / struct ("comparing uncomparable type", finding F4 of
			// property C15); that is not a race and not this test's business
			defer func() { _ = recover() }()
			st.GetSlice(k)
			st.GetSliceOr(k, nil)
		}()
	case 15:
		st.GetMap(k)
		st.GetMapOr(k, nil)
	case 16:
		var t bindTarget
		_ = st.Bind(k, &t)
	case 17:
		func() {
			defer func() { _ = recover() }()
			var t bindTarget
			st.MustBind(k, &t)
		}()
	case 18:
		st.Set(k, "s")
	case 19:
		st.Set(k, nil)
	case 20:
		st.Set(k, 2.5)
	case 21:
		st.Set(k, true)
	case 22:
		st.Set(k, bindTarget{A: i, B: "b"})
	case 23:
		st.Set(k, map[string]any{"a": 1, "b": "x"}) // never touched again by us
	case 24:
		st.Set(k, []any{1, "x"}) // never touched again by us
	}
}

const numMethods = 25

func TestStoreRace(t *testing.T) {
	st := flyt.NewSharedStore()
	keys := []string{"", "a", "é", "k3"}
	const goroutines, iters = 12, 25000
	var wg sync.WaitGroup
	var calls int64
	fin := make(chan struct{})
	for g := 0; g < goroutines; g++ {
		wg.Add(1)
		go func(g int) {
			defer wg.Done()
			x := uint64(g)*0x9E3779B97F4A7C15 + 1
			for i := 0; i < iters; i++ {
				x = x*6364136223846793005 + 1442695040888963407
				callMethod(st, int((x>>33)%numMethods), keys[(x>>20)%uint64(len(keys))], g, i)
				atomic.AddInt64(&calls, 1)
			}
		}(g)
	}
	go func() { wg.Wait(); close(fin) }()
	select {
	case <-fin:
	case <-time.After(90 * time.Second):
		t.Fatalf("store operations blocked: %d of %d calls completed", atomic.LoadInt64(&calls), goroutines*iters)
	}
	t.Logf("calls=%d", atomic.LoadInt64(&calls))
}

// Every method against every other method, pairwise, so that a race between two specific methods is
// not left to the luck of the random mix.
func TestStoreRacePairs(t *testing.T) {
	for a := 0; a < numMethods; a++ {
		for b := a; b < numMethods; b++ {
			st := flyt.NewSharedStore()
			st.Set("a", 1)
			st.Set("", "s")
			var wg sync.WaitGroup
			fin := make(chan struct{})
			for side, m := range []int{a, b} {
				wg.Add(1)
				go func(side, m int) {
					defer wg.Done()
					for i := 0; i < 60; i++ {
						callMethod(st, m, []string{"a", ""}[i%2], side, i*64)
					}
				}(side, m)
			}
			go func() { wg.Wait(); close(fin) }()
			select {
			case <-fin:
			case <-time.After(30 * time.Second):
				t.Fatalf("methods %d and %d blocked each other", a, b)
			}
		}
	}
}
