package main

// Generators of the "value" family (property C15): a hand-written table of every value kind with its
// boundary values, then seeded random nested values.

import (
	"math"
	"strconv"
	"strings"
)

// ---------------------------------------------------------------- generator-side types

type gtype struct {
	k    string   // basic | any | P | S | A | M | C | F | R | named
	name string   // basic / named type name
	n    int      // array length, func signature
	sub  []*gtype // element / key,value / fields
}

func (t *gtype) code() string {
	switch t.k {
	case "basic":
		return t.name
	case "any":
		return "any"
	case "named":
		return "@" + t.name
	case "P", "S", "C":
		return t.k + "(" + t.sub[0].code() + ")"
	case "A":
		return "A" + strconv.Itoa(t.n) + "(" + t.sub[0].code() + ")"
	case "M":
		return "M(" + t.sub[0].code() + "," + t.sub[1].code() + ")"
	case "F":
		return "F" + strconv.Itoa(t.n)
	case "R":
		parts := make([]string, len(t.sub))
		for i, f := range t.sub {
			parts[i] = f.code()
		}
		return "R(" + strings.Join(parts, ",") + ")"
	}
	panic("gtype " + t.k)
}

func basicT(n string) *gtype { return &gtype{k: "basic", name: n} }

var namedDefs = map[string]*gtype{}

func init() {
	for n, code := range namedUnder {
		namedDefs[n] = parseGType(code)
	}
}

// parseGType: type code -> gtype (no named types inside the codes of namedUnder)
func parseGType(code string) *gtype {
	t, rest := parseGTypeAt(code)
	if rest != "" {
		panic("parseGType: trailing " + rest)
	}
	return t
}

func parseGTypeAt(s string) (*gtype, string) {
	i := 0
	for i < len(s) && (s[i] == '@' || (s[i] >= '0' && s[i] <= '9') || (s[i] >= 'a' && s[i] <= 'z') || (s[i] >= 'A' && s[i] <= 'Z')) {
		i++
	}
	id, rest := s[:i], s[i:]
	if id == "any" {
		return &gtype{k: "any"}, rest
	}
	if _, ok := basicTypes[id]; ok {
		return basicT(id), rest
	}
	if id[0] == '@' {
		return &gtype{k: "named", name: id[1:]}, rest
	}
	switch {
	case id == "P" || id == "S" || id == "C":
		e, r := parseGTypeAt(rest[1:])
		return &gtype{k: id, sub: []*gtype{e}}, r[1:]
	case id == "M":
		k, r := parseGTypeAt(rest[1:])
		v, r2 := parseGTypeAt(r[1:])
		return &gtype{k: "M", sub: []*gtype{k, v}}, r2[1:]
	case id == "R":
		t := &gtype{k: "R"}
		r := rest[1:]
		for r[0] != ')' {
			if r[0] == ',' {
				r = r[1:]
			}
			var f *gtype
			f, r = parseGTypeAt(r)
			t.sub = append(t.sub, f)
		}
		return t, r[1:]
	case id[0] == 'A':
		n, _ := strconv.Atoi(id[1:])
		e, r := parseGTypeAt(rest[1:])
		return &gtype{k: "A", n: n, sub: []*gtype{e}}, r[1:]
	case id[0] == 'F':
		n, _ := strconv.Atoi(id[1:])
		return &gtype{k: "F", n: n}, rest
	}
	panic("parseGType: " + s)
}

func (t *gtype) under() *gtype {
	if t.k == "named" {
		return namedDefs[t.name]
	}
	return t
}

// zeroSize: pointers to zero-size objects may all be equal in Go; never generate them.
func (t *gtype) zeroSize() bool {
	u := t.under()
	switch u.k {
	case "R":
		for _, f := range u.sub {
			if !f.zeroSize() {
				return false
			}
		}
		return true
	case "A":
		return u.n == 0 || u.sub[0].zeroSize()
	}
	return false
}

var (
	intKinds   = []string{"int", "int8", "int16", "int32", "int64", "uint", "uint8", "uint16", "uint32", "uint64", "uintptr"}
	basicNames = []string{"int", "int8", "int16", "int32", "int64", "uint", "uint8", "uint16", "uint32", "uint64", "uintptr",
		"float32", "float64", "complex64", "complex128", "string", "bool"}
	// named types a random value may have as its dynamic type (`error` is an interface type and `ErrStr`
	// = errors.errorString only exists behind a pointer: neither is listed; `Result` has its own branch)
	namedNames = []string{"MyInt", "MyInt8", "MyUint16", "MyFloat", "MyFloat32", "MyString", "MyBool", "MyAnys", "MyInts",
		"MyStrs", "MyMap", "MyRec", "MyNC", "MyArr", "MyFunc", "MyPtr", "MyChan",
		"MyInt16", "MyInt32", "MyInt64", "MyUint", "MyUint8", "MyUint32", "MyUint64", "MyUintptr", "MyComplex64", "MyComplex128",
		"MyErr", "MyNCErr", "MyStrErr", "MyRes"}
	keyTypes = []string{"string", "int", "@MyString", "any", "bool", "uint8", "float64", "@Result", "@error"}
)

func intRange(kind string) (lo int64, hi uint64) {
	switch kind {
	case "int8":
		return -128, 127
	case "int16":
		return -32768, 32767
	case "int32":
		return -2147483648, 2147483647
	case "int", "int64":
		return math.MinInt64, math.MaxInt64
	case "uint8":
		return 0, 255
	case "uint16":
		return 0, 65535
	case "uint32":
		return 0, 4294967295
	}
	return 0, math.MaxUint64
}

// interesting float64 / float32 bit patterns
var (
	f64Patterns = []uint64{
		0, 0x8000000000000000, // ±0
		math.Float64bits(1), math.Float64bits(-1), math.Float64bits(1.5), math.Float64bits(-2.75), math.Float64bits(0.1),
		math.Float64bits(3.999999), math.Float64bits(-3.999999), math.Float64bits(1e10), math.Float64bits(-1e10),
		math.Float64bits(9007199254740992), math.Float64bits(9007199254740993), // 2^53 (+1 rounds)
		math.Float64bits(9223372036854774784),  // largest float64 below 2^63
		math.Float64bits(9223372036854775808),  // 2^63: out of range
		math.Float64bits(-9223372036854775808), // -2^63: in range
		math.Float64bits(-9223372036854777856), // below -2^63
		math.Float64bits(1e300), math.Float64bits(-1e300), math.Float64bits(math.MaxFloat64),
		math.Float64bits(math.SmallestNonzeroFloat64), math.Float64bits(2147483648.5), math.Float64bits(4294967296),
		0x7FF8000000000001, 0xFFF8000000000000, // NaNs (quiet)
		0x7FF0000000000000, 0xFFF0000000000000, // ±Inf
		// a hair away from a whole number, on either side: the conversion truncates, it does not round or snap
		math.Float64bits(3 - 1e-10), math.Float64bits(-3 + 1e-10), math.Float64bits(5 + 1e-10), math.Float64bits(1e-10), math.Float64bits(-1e-10),
		math.Float64bits(math.Nextafter(1, 0)), math.Float64bits(math.Nextafter(-1, 0)), math.Float64bits(math.Nextafter(1000000, 0)),
		math.Float64bits(0.49999999999999994), math.Float64bits(0.5), math.Float64bits(-0.5), math.Float64bits(2.5), math.Float64bits(1e15 + 0.5),
	}
	f32Patterns = []uint32{
		0, 0x80000000, math.Float32bits(1), math.Float32bits(-1), math.Float32bits(1.5), math.Float32bits(-2.75),
		math.Float32bits(0.1), math.Float32bits(16777216), math.Float32bits(16777218), math.Float32bits(1e10),
		math.Float32bits(9223371487098961920), // largest float32 below 2^63
		math.Float32bits(9223372036854775808), math.Float32bits(-9223372036854775808),
		math.Float32bits(math.MaxFloat32), math.Float32bits(math.SmallestNonzeroFloat32),
		0x7FC00000, 0xFFC00000, 0x7F800000, 0xFF800000,
		math.Float32bits(math.Nextafter32(3, 0)), math.Float32bits(math.Nextafter32(-3, 0)), math.Float32bits(math.Nextafter32(1, 0)),
		math.Float32bits(0.5), math.Float32bits(-0.5), math.Float32bits(1e-10),
	}
)

func f64Code(t string, bits uint64) string { return "(" + t + ")#" + strconv.FormatUint(bits, 10) }
func f32Code(t string, bits uint32) string {
	return "(" + t + ")#" + strconv.FormatUint(uint64(bits), 10)
}

// ---------------------------------------------------------------- the boundary table

func valueTable() []string {
	var l []string
	add := func(c ...string) { l = append(l, c...) }
	add("nil")
	// the integer kinds with boundary values
	for _, k := range intKinds {
		lo, hi := intRange(k)
		vals := []string{"0", "1", "7", strconv.FormatUint(hi, 10), strconv.FormatUint(hi-1, 10), strconv.FormatUint(hi/2+1, 10)}
		if lo < 0 {
			vals = append(vals, "-1", strconv.FormatInt(lo, 10), strconv.FormatInt(lo+1, 10))
		}
		for _, v := range vals {
			add("(" + k + ")" + v)
		}
	}
	add("(uint)9223372036854775807", "(uint)9223372036854775808", "(uint64)9223372036854775808", "(uint64)12345678901234567890",
		"(uintptr)9223372036854775808", "(int64)9007199254740993", "(uint64)9007199254740993", "(int)-9007199254740993")
	for _, b := range f64Patterns {
		add(f64Code("float64", b))
	}
	for _, b := range f32Patterns {
		add(f32Code("float32", b))
	}
	add("(complex64)#1065353216#0", "(complex64)#2143289344#0", "(complex128)#4609434218613702656#4611686018427387904",
		"(complex128)#9221120237041090561#0", "(complex128)#0#9221120237041090561", "(complex128)#0#9223372036854775808")
	// named scalar types: never a documented source type
	add("(@MyInt)5", "(@MyInt)-9223372036854775808", "(@MyInt8)-128", "(@MyUint16)65535", f64Code("@MyFloat", math.Float64bits(2.5)),
		f64Code("@MyFloat", 0x7FF8000000000001), f32Code("@MyFloat32", math.Float32bits(1.5)), f32Code("@MyFloat32", 0x7FC00000),
		`(@MyString)"x"`, `(@MyString)""`, "(@MyBool)t", "(@MyBool)f",
		`(@JNumber)"5"`, `(@JNumber)"1e3"`, `(@JNumber)"3.75"`, `(@JNumber)"9223372036854775807"`, `(@JNumber)""`, `(@JNumber)"-0"`, `(@JNumber)"abc"`)
	add(`(string)""`, `(string)"hello"`, `(string)"with space, comma (and) [brackets]"`, `(string)"héllo ✓"`, `(string)"123"`, `(string)"true"`,
		"(bool)t", "(bool)f")
	// pointers
	add("(P(int))~", "(P(int))&1", "(P(string))&1", "(P(R(int,S(int))))&2", "(P(R(int,S(int))))~", "(P(P(int)))&1", "(P(S(int)))&1",
		"(P(any))&1", "(P(M(string,any)))&3", "(@MyPtr)&3", "(@MyPtr)~", "(P(@MyRec))&1", "(P(float64))&1")
	// maps
	add("(M(string,any))&1", "(M(string,any))~", "(@MyMap)&2", "(@MyMap)~", "(M(string,int))&3", "(M(string,int))~", "(M(int,any))&4",
		"(M(any,any))~", "(M(any,any))&5", "(M(string,string))&6", "(M(string,S(int)))&7", "(M(@MyString,any))&8", "(M(string,M(string,any)))&9")
	// funcs and channels
	add("(F0)&", "(F0)~", "(F1)&", "(F2)&", "(F2)~", "(@MyFunc)&", "(@MyFunc)~",
		"(C(int))&1", "(C(int))~", "(@MyChan)&2", "(@MyChan)~", "(C(any))&3", "(C(S(int)))&4")
	// arrays
	nan := f64Code("float64", 0x7FF8000000000001)
	add("(A0(int))[]", "(A1(int))[(int)1]", "(A2(int))[(int)1,(int)2]", "(A3(string))[(string)\"a\",(string)\"\",(string)\"c\"]",
		"(A1(S(int)))[(S(int))[(int)1]]", "(A1(S(int)))[(S(int))~]", "(A0(S(int)))[]", "(A2(M(string,any)))[(M(string,any))&1,(M(string,any))~]",
		"(A2(any))[(int)1,(S(int))~]", "(A2(any))[(int)1,(string)\"a\"]", "(A2(any))[nil,nil]", "(A2(any))["+nan+",(S(int))~]",
		"(A2(any))[(S(int))~,"+nan+"]", "(A1(any))[(F0)&]", "(A2(float64))["+nan+",(float64)#0]", "(A1(float64))[(float64)#0]",
		"(A2(P(int)))[(P(int))&1,(P(int))~]", "(A1(A1(S(int))))[(A1(S(int)))[(S(int))[]]]", "(A1(A1(int)))[(A1(int))[(int)3]]",
		"(@MyArr)[(int)1,(int)2]", "(A1(F0))[(F0)&]", "(A2(uint8))[(uint8)0,(uint8)255]", "(A1(R(int,S(int))))[(R(int,S(int))){(int)1,(S(int))~}]")
	// structs: comparable fields, non-comparable fields, interface fields holding either, NaN inside
	add("(R()){}", `(R(int,string)){(int)1,(string)"a"}`, "(R(int,S(int))){(int)1,(S(int))[(int)2]}", "(R(int,S(int))){(int)0,(S(int))~}",
		"(R(S(any))){(S(any))[(int)1]}", "(R(M(string,any))){(M(string,any))&1}", "(R(F0)){(F0)&}", "(R(F0)){(F0)~}",
		"(R(any)){(M(string,any))&1}", "(R(any)){(int)1}", "(R(any)){nil}", "(R(any)){(S(int))[(int)1]}", "(R(any,int)){(F0)&,(int)1}",
		"(R(float64)){"+nan+"}", "(R(float64,any)){"+nan+",(S(int))~}", "(R(any,float64)){(S(int))~,"+nan+"}", "(R(float64,S(int))){"+nan+",(S(int))~}",
		"(R(float32)){(float32)#2143289344}", "(R(complex128)){(complex128)#9221120237041090561#0}",
		"(R(P(int),C(int))){(P(int))&1,(C(int))&1}", "(R(R(int,S(int)))){(R(int,S(int))){(int)1,(S(int))~}}", "(R(R(int),string)){(R(int)){(int)1},(string)\"z\"}",
		"(R(A1(S(int)))){(A1(S(int)))[(S(int))~]}", `(@MyRec){(int)1,(string)"a"}`, "(@MyNC){(int)1,(S(int))[(int)2]}", "(@MyNC){(int)0,(S(int))~}",
		"(R(@MyNC)){(@MyNC){(int)0,(S(int))~}}", "(R(any)){(@MyNC){(int)0,(S(int))~}}", "(R(any)){(R(any)){(S(int))~}}", "(R(bool,uint8)){(bool)t,(uint8)9}")
	// []any
	add("(S(any))~", "(S(any))[]", "(S(any))[(int)1]", `(S(any))[(int)1,(string)"a",nil]`, "(S(any))[nil]", "(S(any))[(S(any))[(int)1]]",
		"(S(any))[(S(any))~]", "(S(any))["+nan+"]", "(S(any))[(M(string,any))&1]", "(S(any))[(F0)&]", "(S(any))[(S(int))[(int)1,(int)2],(S(any))[]]",
		`(S(any))[(bool)t,(float64)#4609434218613702656,(P(int))&1,(P(int))&1,(P(int))~]`, "(S(any))[(R(int,S(int))){(int)1,(S(int))~}]")
	// typed slices: the four fast paths and the reflection fallback
	add("(S(int))~", "(S(int))[]", "(S(int))[(int)5]", "(S(int))[(int)1,(int)2,(int)3]", "(S(int))[(int)-9223372036854775808,(int)9223372036854775807]",
		"(S(string))~", "(S(string))[]", `(S(string))[(string)"a"]`, `(S(string))[(string)"c",(string)"",(string)"a",(string)"b"]`,
		"(S(float64))~", "(S(float64))[]", "(S(float64))["+nan+"]", "(S(float64))[(float64)#4609434218613702656,"+nan+",(float64)#9223372036854775808]",
		"(S(M(string,any)))~", "(S(M(string,any)))[]", "(S(M(string,any)))[(M(string,any))&1]", "(S(M(string,any)))[(M(string,any))&1,(M(string,any))~,(M(string,any))&2,(M(string,any))&1]",
		"(S(uint8))[(uint8)104,(uint8)105]", "(S(uint8))~", "(S(int32))[(int32)-1]", "(S(int64))[(int64)1,(int64)2]", "(S(float32))[(float32)#2143289344]",
		"(S(bool))[(bool)t,(bool)f]", "(S(bool))[(bool)f]", "(S(S(int)))[(S(int))[(int)1],(S(int))[(int)2,(int)3]]", "(S(S(int)))[(S(int))~]", "(S(S(any)))[(S(any))[(int)1]]",
		"(S(S(any)))[(S(any))~]", "(S(P(int)))[(P(int))&1,(P(int))~,(P(int))&1]", "(S(P(int)))[(P(int))&2]", "(S(@MyInt))[(@MyInt)1,(@MyInt)2]", "(S(@MyInt))[(@MyInt)7]",
		"(S(F0))[(F0)&]", "(S(F0))[(F0)~,(F0)&]", "(S(C(int)))[(C(int))&1]", "(S(A1(int)))[(A1(int))[(int)1]]", "(S(A1(S(int))))[(A1(S(int)))[(S(int))~]]",
		"(S(R(int,S(int))))[(R(int,S(int))){(int)1,(S(int))~}]", `(S(R(int,string)))[(R(int,string)){(int)1,(string)"a"},(R(int,string)){(int)2,(string)"b"}]`,
		"(S(@MyRec))[(@MyRec){(int)1,(string)\"a\"}]", "(S(M(string,int)))[(M(string,int))&1]", "(S(M(int,any)))[(M(int,any))~]", "(S(complex128))[(complex128)#0#0]",
		"(S(@MyAnys))[(@MyAnys)[(int)1]]", "(S(@MyAnys))[(@MyAnys)~]", "(S(uintptr))[(uintptr)1]")
	// named slice types (never `[]any` for the type assertion; a one-element slice of its own type compares two slices)
	add("(@MyAnys)~", "(@MyAnys)[]", "(@MyAnys)[(int)1]", `(@MyAnys)[(int)1,(string)"a",nil]`, "(@MyAnys)[nil]", "(@MyAnys)[(@MyAnys)[]]", "(@MyAnys)[(@MyAnys)~]",
		"(@MyAnys)[(@MyAnys)[(int)1],(@MyAnys)[]]", "(@MyAnys)[(S(any))[]]", "(@MyAnys)[(M(string,any))&1]", "(@MyInts)~", "(@MyInts)[]", "(@MyInts)[(int)1]",
		"(@MyInts)[(int)1,(int)2]", "(@MyStrs)~", `(@MyStrs)[(string)"a"]`, `(@MyStrs)[(string)"b",(string)"a"]`)
	// named types of the remaining basic kinds (never a documented source type, whatever the value)
	add("(@MyInt16)-32768", "(@MyInt32)2147483647", "(@MyInt64)-9223372036854775808", "(@MyInt64)1000000000", "(@MyUint)18446744073709551615",
		"(@MyUint8)255", "(@MyUint32)0", "(@MyUint64)9223372036854775808", "(@MyUintptr)1", "(@MyComplex64)#1065353216#0",
		"(@MyComplex128)#9221120237041090561#0", "(S(@MyInt64))[(@MyInt64)1]", "(S(@MyUint8))[(@MyUint8)104,(@MyUint8)105]", "(S(@MyUint8))~",
		f64Code("@MyFloat", 0x7FF0000000000000), f64Code("@MyFloat", 0x8000000000000000), f32Code("@MyFloat32", 0xFF800000))
	// maps whose keys are NaNs / Results / errors (the codec puts two NaN entries into a float-keyed map)
	add("(M(float64,any))&1", "(M(float64,any))~", "(M(float64,string))&2", "(M(float32,int))&3", "(M(@Result,any))&4", "(M(@error,int))&5",
		"(A1(M(float64,any)))[(M(float64,any))&1]", "(S(M(float64,any)))[(M(float64,any))&1]")
	// more empty-vs-nil containers and pointer chains
	add("(S(S(any)))~", "(S(S(any)))[]", "(S(M(string,any)))[(M(string,any))~]", "(S(F0))~", "(S(F0))[]", "(S(C(int)))~", "(S(P(P(int))))[(P(P(int)))~]",
		"(P(P(P(int))))&1", "(P(P(int)))~", "(P(C(int)))&1", "(P(F0))&1", "(P(A1(S(int))))&1", "(C(C(int)))&1", "(C(F0))&2", "(C(M(string,any)))~",
		"(A0(F0))[]", "(A0(M(string,any)))[]", "(A2(F0))[(F0)~,(F0)~]", "(A1(M(string,any)))[(M(string,any))~]", "(A1(@MyNC))[(@MyNC){(int)0,(S(int))~}]",
		"(A2(S(any)))[(S(any))~,(S(any))[]]", "(R(A0(S(int)))){(A0(S(int)))[]}", "(R(S(any),M(string,any))){(S(any))~,(M(string,any))~}")
	add(resultTable()...)
	return l
}

// resultTable: flyt.Result used as an ordinary value — the payload of another Result, a store entry, an
// element of a slice / array / struct / map type — and error values, `error`-typed slots.
func resultTable() []string {
	var l []string
	add := func(c ...string) { l = append(l, c...) }
	nan := f64Code("float64", 0x7FF8000000000001)
	res := func(v string) string { return "(@Result){" + v + ",nil}" }
	eres := func(e string) string { return "(@Result){nil," + e + "}" }
	errNew, errNew2 := "(P(@ErrStr))&1", "(P(@ErrStr))&2"
	errs := []string{errNew, errNew2, "(P(@ErrStr))~", "(@MyErr){(int)3}", "(@MyErr){(int)0}", "(P(@MyErr))&1", "(P(@MyErr))~",
		"(@MyNCErr){(S(string))~}", `(@MyNCErr){(S(string))[(string)"a"]}`, "(P(@MyNCErr))&1", `(@MyStrErr)"boom"`, `(@MyStrErr)""`}
	// a non-error Result holding each of the kinds the accessors know, and the ones they do not
	payloads := []string{"nil", "(int)42", "(int)0", "(int8)-128", "(uint64)18446744073709551615", "(uintptr)7", "(@MyInt)5",
		f64Code("float64", math.Float64bits(2.5)), nan, f64Code("float64", 0x7FF0000000000000), f32Code("float32", math.Float32bits(1.5)),
		`(string)"hello"`, `(string)""`, `(@MyString)"x"`, "(bool)t", "(bool)f", "(complex128)#0#0",
		"(S(any))~", "(S(any))[]", `(S(any))[(int)1,(string)"a",nil]`, "(S(int))[(int)1,(int)2,(int)3]", "(S(int))~", `(S(string))[(string)"a"]`,
		"(S(float64))[" + nan + "]", "(S(M(string,any)))[(M(string,any))&1]", "(@MyAnys)[(int)1]", "(S(uint8))[(uint8)104]",
		"(M(string,any))&1", "(M(string,any))~", "(@MyMap)&2", "(M(string,int))&3", "(M(float64,any))&1",
		"(P(int))&1", "(P(int))~", "(F0)&", "(F0)~", "(C(int))&1", "(A2(int))[(int)1,(int)2]", "(A1(S(int)))[(S(int))~]",
		`(R(int,string)){(int)1,(string)"a"}`, "(R(int,S(int))){(int)1,(S(int))~}", "(R(float64)){" + nan + "}", "(@MyNC){(int)0,(S(int))~}", "(R()){}"}
	for _, v := range payloads {
		add(res(v))
	}
	// error Results; NewErrorResult(nil) is the zero Result, the same value as NewResult(nil)
	for _, e := range errs {
		add(eres(e))
	}
	// error values as payloads of a non-error Result, and as values in their own right
	for _, e := range errs {
		add(res(e), e)
	}
	// Results inside Results
	r42 := res("(int)42")
	add(res(r42), res(res(r42)), res(res(res(res("nil")))), res(res("nil")), res(res(`(string)"x"`)), res(res("(S(int))[(int)1,(int)2,(int)3]")),
		res(res("(M(string,any))&1")), res(res("(bool)t")), res(res(nan)), res(res("(F0)&")), res(res("(S(int))~")),
		res(eres(errNew)), res(res(eres(errNew))), res(eres("(@MyNCErr){(S(string))~}")), res(eres("(P(@MyErr))~")),
		res("(S(any))["+r42+"]"), res("(S(@Result))["+r42+"]"), res("(A1(@Result))["+r42+"]"), res("(R(@Result)){"+r42+"}"), res("(P(@Result))&1"))
	// slices / arrays / structs / maps / pointers / channels of Results
	rs, re, rn, rnc := res(`(string)"two"`), eres(errNew), res("nil"), res("(S(int))~")
	add("(S(@Result))~", "(S(@Result))[]", "(S(@Result))["+r42+"]", "(S(@Result))["+r42+","+rs+"]", "(S(@Result))["+rn+"]", "(S(@Result))["+re+"]",
		"(S(@Result))["+rnc+"]", "(S(@Result))["+res(nan)+"]", "(S(@Result))["+r42+","+re+","+rn+","+res(r42)+"]", "(S(@Result))["+res(r42)+"]",
		"(S(@Result))["+res("(S(@Result))["+r42+"]")+"]", "(S(@Result))["+eres("(@MyNCErr){(S(string))~}")+"]",
		"(S(any))["+r42+"]", "(S(any))["+r42+","+rs+",nil]", "(S(any))["+re+"]", "(S(any))["+rnc+"]", "(S(any))[(S(@Result))["+r42+"]]",
		"(@MyAnys)["+r42+"]", "(S(S(@Result)))[(S(@Result))["+r42+"]]", "(S(S(@Result)))[(S(@Result))~]", "(S(P(@Result)))[(P(@Result))&1,(P(@Result))~]",
		"(A0(@Result))[]", "(A1(@Result))["+r42+"]", "(A1(@Result))["+rnc+"]", "(A1(@Result))["+res(nan)+"]", "(A2(@Result))["+r42+","+rnc+"]",
		"(A2(@Result))["+rnc+","+res(nan)+"]", "(A2(@Result))["+res(nan)+","+rnc+"]", "(A1(@Result))["+re+"]", "(A2(any))["+r42+","+rn+"]",
		"(R(@Result)){"+r42+"}", "(R(@Result)){"+rn+"}", "(R(@Result)){"+rnc+"}", "(R(@Result)){"+re+"}", "(R(@Result,int)){"+res(nan)+",(int)1}",
		"(R(int,@Result)){(int)1,"+rnc+"}", "(R(any)){"+r42+"}", "(R(any)){"+rnc+"}", "(R(@Result,S(int))){"+r42+",(S(int))~}", "(R(S(@Result))){(S(@Result))["+r42+"]}",
		"(M(string,@Result))&1", "(M(string,@Result))~", "(M(@Result,@Result))&2", "(S(M(string,@Result)))[(M(string,@Result))&1]",
		"(P(@Result))&1", "(P(@Result))~", "(P(P(@Result)))&1", "(P(S(@Result)))&1", "(C(@Result))&1", "(C(@Result))~")
	// `type MyRes flyt.Result`: the same struct under another name — not a flyt.Result for As[T]
	add("(@MyRes){nil,nil}", "(@MyRes){(int)42,nil}", "(@MyRes){nil,"+errNew+"}", "(@MyRes){"+r42+",nil}", "(@MyRes){(@MyRes){(int)42,nil},nil}",
		"(@MyRes){(S(int))~,nil}", res("(@MyRes){(int)42,nil}"), "(S(@MyRes))[(@MyRes){(int)42,nil}]", "(S(@MyRes))~", "(A1(@MyRes))[(@MyRes){(S(int))~,nil}]",
		"(R(@MyRes,@Result)){(@MyRes){(int)1,nil},"+r42+"}", "(P(@MyRes))&1", "(M(string,@MyRes))&1")
	// `error`-typed slots
	add("(S(@error))~", "(S(@error))[]", "(S(@error))[nil]", "(S(@error))["+errNew+"]", "(S(@error))["+errNew+",nil,"+errNew2+","+errNew+"]",
		"(S(@error))[(@MyNCErr){(S(string))~}]", "(S(@error))[(P(@MyErr))~]", "(S(@error))[(@MyErr){(int)3},(@MyStrErr)\"boom\"]",
		"(A1(@error))[nil]", "(A1(@error))["+errNew+"]", "(A1(@error))[(@MyNCErr){(S(string))~}]", "(A2(@error))[(@MyErr){(int)3},(@MyNCErr){(S(string))~}]",
		"(R(@error)){nil}", "(R(@error)){"+errNew+"}", "(R(@error)){(@MyNCErr){(S(string))~}}", "(R(any,@error)){(int)42,nil}", "(R(any,@error)){nil,"+errNew+"}",
		"(R(any,@error)){(S(int))~,(@MyNCErr){(S(string))~}}", "(M(string,@error))&1", "(M(string,@error))~", "(P(@error))&1", "(P(@error))~", "(C(@error))&1",
		"(S(@MyErr))[(@MyErr){(int)1},(@MyErr){(int)1}]", "(S(@MyNCErr))[(@MyNCErr){(S(string))~}]", "(A1(@MyNCErr))[(@MyNCErr){(S(string))~}]")
	return l
}

type defaultsSet struct {
	ds, di, df string
	db         bool
	dsl, dm    string
}

var defaultSets = []defaultsSet{
	{"dflt", "-7", strconv.FormatUint(math.Float64bits(2.5), 10), true, `(S(any))[(string)"d"]`, "(M(string,any))&77"},
	{"", "0", "0", false, "(S(any))~", "(M(string,any))~"},
	{"x", "9223372036854775807", strconv.FormatUint(0x7FF8000000000001, 10), false, "(S(any))[]", "(M(string,any))&77"},
	{"another default", "-9223372036854775808", strconv.FormatUint(0x8000000000000000, 10), true, `(S(any))[nil,(int)1]`, "(M(string,any))~"},
}

// errRecvTable: the receiver of the Result accessors is an *error* Result, flyt.NewErrorResult(err); what
// it holds as its value is nil, so the scenario's value is nil
func errRecvTable() []string {
	return []string{"(P(@ErrStr))&1", "(P(@ErrStr))~", "(@MyErr){(int)3}", "(P(@MyErr))~", "(@MyNCErr){(S(string))~}", `(@MyStrErr)"boom"`, `(@MyStrErr)"42"`}
}

func (d defaultsSet) scenario(code string) ValueScenario {
	return ValueScenario{V: code, Ds: d.ds, Di: d.di, Df: d.df, Db: d.db, Dsl: d.dsl, Dm: d.dm}
}

// ---------------------------------------------------------------- random nested values

func randGType(r *rng, depth int, slot bool) *gtype {
	// slot: the type of an element / field (may be `any`); top-level dynamic types never are
	// a flyt.Result, an `error`-typed slot, an error type
	switch q := r.intn(100); {
	case q < 6:
		return &gtype{k: "named", name: "Result"}
	case slot && q < 8:
		return &gtype{k: "named", name: "error"}
	case q >= 98:
		return parseGType(errTypes[r.intn(len(errTypes))])
	}
	p := r.intn(100)
	if depth <= 0 {
		switch {
		case slot && p < 20:
			return &gtype{k: "any"}
		case p < 75:
			return basicT(basicNames[r.intn(len(basicNames))])
		case p < 85:
			return &gtype{k: "F", n: r.intn(3)}
		default:
			return &gtype{k: "named", name: namedNames[r.intn(len(namedNames))]}
		}
	}
	switch {
	case slot && p < 14:
		return &gtype{k: "any"}
	case p < 30:
		return basicT(basicNames[r.intn(len(basicNames))])
	case p < 38:
		return &gtype{k: "named", name: namedNames[r.intn(len(namedNames))]}
	case p < 56:
		return &gtype{k: "S", sub: []*gtype{randGType(r, depth-1, true)}}
	case p < 66:
		return &gtype{k: "A", n: r.intn(4), sub: []*gtype{randGType(r, depth-1, true)}}
	case p < 82:
		n := r.intn(4)
		t := &gtype{k: "R"}
		for i := 0; i < n; i++ {
			t.sub = append(t.sub, randGType(r, depth-1, true))
		}
		return t
	case p < 88:
		e := randGType(r, depth-1, true)
		if e.zeroSize() {
			e = basicT("int")
		}
		return &gtype{k: "P", sub: []*gtype{e}}
	case p < 94:
		return &gtype{k: "M", sub: []*gtype{parseGType(keyTypes[r.intn(len(keyTypes))]), randGType(r, depth-1, true)}}
	case p < 97:
		return &gtype{k: "C", sub: []*gtype{randGType(r, depth-1, true)}}
	default:
		return &gtype{k: "F", n: r.intn(3)}
	}
}

func randIntIn(r *rng, kind string) string {
	lo, hi := intRange(kind)
	switch r.intn(8) {
	case 0:
		return strconv.FormatUint(hi, 10)
	case 1:
		if lo < 0 {
			return strconv.FormatInt(lo, 10)
		}
		return "0"
	case 2:
		return strconv.Itoa(r.intn(3))
	case 3:
		if lo < 0 {
			return strconv.Itoa(-1 - r.intn(100))
		}
		return strconv.FormatUint(hi-uint64(r.intn(3)), 10)
	default:
		x := r.next()
		if lo < 0 {
			// uniform over the signed range of the kind
			span := hi - uint64(lo) // wraps correctly for 64-bit kinds
			if span == math.MaxUint64 {
				return strconv.FormatInt(int64(x), 10)
			}
			return strconv.FormatInt(lo+int64(x%(span+1)), 10)
		}
		if hi == math.MaxUint64 {
			return strconv.FormatUint(x, 10)
		}
		return strconv.FormatUint(x%(hi+1), 10)
	}
}

func randF64Bits(r *rng) uint64 {
	if r.chance(55) {
		return f64Patterns[r.intn(len(f64Patterns))]
	}
	if r.chance(50) {
		// a number of moderate size with a fraction, either sign
		f := float64(int64(r.next()%2000001)-1000000) / 8
		return math.Float64bits(f)
	}
	b := r.next()
	if f := math.Float64frombits(b); math.IsNaN(f) {
		return 0x7FF8000000000001
	}
	return b
}

func randF32Bits(r *rng) uint32 {
	if r.chance(55) {
		return f32Patterns[r.intn(len(f32Patterns))]
	}
	b := uint32(r.next())
	if f := math.Float32frombits(b); f != f {
		return 0x7FC00000
	}
	return b
}

// dynamic types of error values
var errTypes = []string{"P(@ErrStr)", "@MyErr", "P(@MyErr)", "@MyNCErr", "P(@MyNCErr)", "@MyStrErr"}

var randStrings = []string{"", "a", "b", "hello", "x y", "0", "true", "ß✓"}

func randRef(r *rng) string {
	if r.chance(25) {
		return "~"
	}
	return "&" + strconv.Itoa(1+r.intn(3))
}

// randValueOf: a value code of static type t (for `any`: nil or a value of a random dynamic type)
func randValueOf(r *rng, t *gtype, depth int) string {
	if t.k == "any" {
		if r.chance(15) {
			return "nil"
		}
		d := depth - 1
		if d < 0 {
			d = 0
		}
		dt := randGType(r, d, false)
		return randValueOf(r, dt, d)
	}
	pre := "(" + t.code() + ")"
	if t.k == "named" && t.name == "error" {
		// a slot of type error: nil or an error value
		if r.chance(20) {
			return "nil"
		}
		return randValueOf(r, parseGType(errTypes[r.intn(len(errTypes))]), depth-1)
	}
	if t.k == "named" && (t.name == "Result" || t.name == "MyRes") {
		// only what the public constructors can build: NewResult(v) and NewErrorResult(err)
		if r.chance(25) {
			return pre + "{nil," + randValueOf(r, &gtype{k: "named", name: "error"}, depth) + "}"
		}
		return pre + "{" + randValueOf(r, &gtype{k: "any"}, depth) + ",nil}"
	}
	u := t.under()
	switch u.k {
	case "basic":
		switch u.name {
		case "float64":
			return pre + "#" + strconv.FormatUint(randF64Bits(r), 10)
		case "float32":
			return pre + "#" + strconv.FormatUint(uint64(randF32Bits(r)), 10)
		case "complex128":
			return pre + "#" + strconv.FormatUint(randF64Bits(r), 10) + "#" + strconv.FormatUint(randF64Bits(r), 10)
		case "complex64":
			return pre + "#" + strconv.FormatUint(uint64(randF32Bits(r)), 10) + "#" + strconv.FormatUint(uint64(randF32Bits(r)), 10)
		case "string":
			return pre + "\"" + randStrings[r.intn(len(randStrings))] + "\""
		case "bool":
			if r.chance(50) {
				return pre + "t"
			}
			return pre + "f"
		default:
			return pre + randIntIn(r, u.name)
		}
	case "P", "M", "C":
		return pre + randRef(r)
	case "F":
		if r.chance(25) {
			return pre + "~"
		}
		return pre + "&"
	case "S":
		if r.chance(12) {
			return pre + "~"
		}
		n := []int{0, 1, 1, 1, 2, 3}[r.intn(6)]
		return pre + "[" + randElems(r, u.sub[0], n, depth) + "]"
	case "A":
		return pre + "[" + randElems(r, u.sub[0], u.n, depth) + "]"
	case "R":
		parts := make([]string, len(u.sub))
		for i, f := range u.sub {
			parts[i] = randValueOf(r, f, depth-1)
		}
		return pre + "{" + strings.Join(parts, ",") + "}"
	}
	panic("randValueOf " + t.k)
}

func randElems(r *rng, et *gtype, n int, depth int) string {
	parts := make([]string, n)
	for i := range parts {
		parts[i] = randValueOf(r, et, depth-1)
	}
	return strings.Join(parts, ",")
}

func genC15(r *rng, thorough bool, emit func(ValueScenario)) {
	table := valueTable()
	nDef := 2
	nRand := 2500
	if thorough {
		nDef = len(defaultSets)
		nRand = 60000
	}
	for _, code := range table {
		for i := 0; i < nDef; i++ {
			emit(defaultSets[i].scenario(code))
		}
	}
	for _, e := range errRecvTable() {
		for i := 0; i < nDef; i++ {
			sc := defaultSets[i].scenario("nil")
			sc.RecvErr = e
			emit(sc)
		}
	}
	for i := 0; i < nRand; i++ {
		depth := 1 + r.intn(3)
		t := randGType(r, depth, false)
		code := randValueOf(r, t, depth)
		if len(code) > 4000 {
			continue
		}
		emit(defaultSets[r.intn(len(defaultSets))].scenario(code))
	}
}
