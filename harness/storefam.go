package main

// Family "store" (property C14): sequences of SharedStore calls interleaved with caller-side
// mutations of the maps / slices the store handed out or received, run against the real
// flyt.SharedStore; every return value is recorded, canonicalised (keys by table index).
//
// Line protocol (see lean/Driver/StoreFam.lean):
//
//	OP   ::= g<k> | s<k>:<v> | a | mn | ml[<k>:<v>{,<k>:<v>}] | ms<j> | h<k> | d<k> | c | k | l
//	       | xs<j>:<k>:<v> | xd<j>:<k> | xk<j>:<old>:<new> | rs<j> | rk<j>
//	RESP ::= u | g<v>:<0|1> | b<0|1> | n<n> | k[<k>{,<k>}] | m[<k>:<v>{,<k>:<v>}] | H | P | T
//
// <k> = index into the scenario's key table, <v> = value token (0 = nil, kind = token%8, see
// values.go), <j> = handle of a caller-held map (GetAll results and Merge literals, in order of
// creation) or keys slice (Keys results).

import (
	"encoding/json"
	"fmt"
	"os"
	"reflect"
	"sort"
	"strconv"
	"strings"
	"sync/atomic"
	"time"

	"github.com/mark3labs/flyt"
)

const (
	storeWatchdog = 10 * time.Second
	// after this many watchdog firings in one process the rest of the family is not run any more
	// (each remaining scenario is emitted as the empty scenario): the run has failed already, with
	// concrete hanging inputs, and thousands of further 10 s waits would add nothing
	storeMaxHangs = 8
	unknownIdx    = 9999
	storeMaxTok   = 40
)

type StoreScenario struct {
	Keys []string `json:"keys"`
	Ops  []string `json:"ops"`
}

type StoreObs struct {
	Resps []string `json:"resps"`
}

func (j *jobList) addStore(sc StoreScenario) {
	s := sc
	j.jobs = append(j.jobs, job{fam: "store", sc: &s, run: func() any { return execStoreScenario(&s) }})
}

// ---- values: token <-> Go value, lock-free after init ----

var (
	storeVals   [storeMaxTok + 1]any
	storeCmpTok = map[any]int{}     // comparable kinds
	storePtrTok = map[uintptr]int{} // maps and slices, by identity
)

// typedNilToks: store tokens that stand for typed nil values (a nil pointer / a nil map boxed in an `any`): values like any
// other — what was stored is what comes back, type included
var typedNilToks = map[int]any{37: (*int)(nil), 38: map[string]any(nil), 39: (*pair)(nil),
	35: []int{1, 2}, 36: []string{"a", "b"}, // … and two TYPED slices (told apart from a converted []any copy by identity)
	// values of the library's own Result type (non-error, one holding nil, one holding a Result): values like any other — the
	// store keeps the Result, not what it carries
	32: flyt.NewResult(flyt.NewResult("x")), 33: flyt.NewResult(42), 34: flyt.NewResult(nil)}

func init() {
	for n := 1; n <= storeMaxTok; n++ {
		v := goVal(n)
		if tn, ok := typedNilToks[n]; ok {
			v = tn
		}
		storeVals[n] = v
		rv := reflect.ValueOf(v)
		switch rv.Kind() {
		case reflect.Map, reflect.Slice:
			storePtrTok[rv.Pointer()] = n
		default:
			storeCmpTok[v] = n
		}
	}
}

func storeVal(n int) any {
	if n < 0 || n > storeMaxTok {
		panic("store family: token out of range " + strconv.Itoa(n))
	}
	return storeVals[n]
}

func storeTok(v any) int {
	if v == nil {
		return 0
	}
	rv := reflect.ValueOf(v)
	switch rv.Kind() {
	case reflect.Map, reflect.Slice:
		if n, ok := storePtrTok[rv.Pointer()]; ok && reflect.TypeOf(storeVals[n]) == rv.Type() {
			return n
		}
		return unknownIdx
	case reflect.Func, reflect.Chan:
		return unknownIdx
	}
	if !rv.Type().Comparable() {
		return unknownIdx
	}
	if n, ok := storeCmpTok[v]; ok {
		return n
	}
	return unknownIdx
}

// ---- ops ----

type sop struct {
	code    string // g s a mn ml ms h d c k l xs xd xk rs rk
	a, b, c int
	lit     [][2]int
}

func (o sop) String() string {
	switch o.code {
	case "a", "mn", "c", "k", "l":
		return o.code
	case "g", "h", "d", "ms", "rs", "rk":
		return o.code + strconv.Itoa(o.a)
	case "s", "xd":
		return fmt.Sprintf("%s%d:%d", o.code, o.a, o.b)
	case "xs", "xk":
		return fmt.Sprintf("%s%d:%d:%d", o.code, o.a, o.b, o.c)
	case "ml":
		parts := make([]string, len(o.lit))
		for i, p := range o.lit {
			parts[i] = fmt.Sprintf("%d:%d", p[0], p[1])
		}
		return "ml" + strings.Join(parts, ",")
	}
	panic("bad op code " + o.code)
}

func parseSop(s string) (sop, error) {
	bad := func() (sop, error) { return sop{}, fmt.Errorf("bad store op %q", s) }
	nums := func(body string, n int) ([]int, bool) {
		parts := strings.Split(body, ":")
		if len(parts) != n {
			return nil, false
		}
		out := make([]int, n)
		for i, p := range parts {
			v, err := strconv.Atoi(p)
			if err != nil || v < 0 {
				return nil, false
			}
			out[i] = v
		}
		return out, true
	}
	switch s {
	case "a", "mn", "c", "k", "l":
		return sop{code: s}, nil
	}
	for _, pre := range []string{"ml", "ms", "xs", "xd", "xk", "rs", "rk", "g", "s", "h", "d"} {
		if !strings.HasPrefix(s, pre) {
			continue
		}
		body := s[len(pre):]
		switch pre {
		case "ml":
			o := sop{code: "ml", lit: [][2]int{}}
			if body == "" {
				return o, nil
			}
			for _, p := range strings.Split(body, ",") {
				n, ok := nums(p, 2)
				if !ok {
					return bad()
				}
				o.lit = append(o.lit, [2]int{n[0], n[1]})
			}
			return o, nil
		case "g", "h", "d", "ms", "rs", "rk":
			n, ok := nums(body, 1)
			if !ok {
				return bad()
			}
			return sop{code: pre, a: n[0]}, nil
		case "s", "xd":
			n, ok := nums(body, 2)
			if !ok {
				return bad()
			}
			return sop{code: pre, a: n[0], b: n[1]}, nil
		case "xs", "xk":
			n, ok := nums(body, 3)
			if !ok {
				return bad()
			}
			return sop{code: pre, a: n[0], b: n[1], c: n[2]}, nil
		}
	}
	return bad()
}

// ---- executor ----

type storeRun struct {
	keys   []string
	kidx   map[string]int
	st     *flyt.SharedStore
	snaps  []map[string]any
	ksnaps [][]string
}

func newStoreRun(keys []string) *storeRun {
	r := &storeRun{keys: keys, kidx: map[string]int{}, st: flyt.NewSharedStore()}
	for i, k := range keys {
		r.kidx[k] = i
	}
	return r
}

func (r *storeRun) key(i int) string {
	if i < 0 || i >= len(r.keys) {
		panic("store family: key index out of range")
	}
	return r.keys[i]
}

func (r *storeRun) idx(k string) int {
	if i, ok := r.kidx[k]; ok {
		return i
	}
	return unknownIdx
}

func (r *storeRun) encKeys(ks []string) string {
	idx := make([]int, len(ks))
	for i, k := range ks {
		idx[i] = r.idx(k)
	}
	sort.Ints(idx)
	parts := make([]string, len(idx))
	for i, n := range idx {
		parts[i] = strconv.Itoa(n)
	}
	return "k" + strings.Join(parts, ",")
}

func (r *storeRun) encMap(m map[string]any) string {
	type kv struct{ k, v int }
	l := make([]kv, 0, len(m))
	for k, v := range m {
		l = append(l, kv{r.idx(k), storeTok(v)})
	}
	sort.Slice(l, func(i, j int) bool {
		if l[i].k != l[j].k {
			return l[i].k < l[j].k
		}
		return l[i].v < l[j].v
	})
	parts := make([]string, len(l))
	for i, p := range l {
		parts[i] = strconv.Itoa(p.k) + ":" + strconv.Itoa(p.v)
	}
	return "m" + strings.Join(parts, ",")
}

func b01(b bool) string {
	if b {
		return "1"
	}
	return "0"
}

// do performs one step against the real store and returns the canonical response.
func (r *storeRun) do(o sop) (resp string) {
	defer func() {
		if e := recover(); e != nil {
			resp = "P"
		}
	}()
	switch o.code {
	case "g":
		v, ok := r.st.Get(r.key(o.a))
		return "g" + strconv.Itoa(storeTok(v)) + ":" + b01(ok)
	case "s":
		r.st.Set(r.key(o.a), storeVal(o.b))
		return "u"
	case "a":
		m := r.st.GetAll()
		if m == nil {
			// a nil map cannot be written to by the caller: not what the model's GetAll returns
			r.snaps = append(r.snaps, map[string]any{})
			return "P"
		}
		r.snaps = append(r.snaps, m)
		return r.encMap(m)
	case "mn":
		r.st.Merge(nil)
		return "u"
	case "ml":
		m := make(map[string]any, len(o.lit))
		for i := len(o.lit) - 1; i >= 0; i-- { // first entry of a (never generated) repeated key counts, as in the model
			m[r.key(o.lit[i][0])] = storeVal(o.lit[i][1])
		}
		r.snaps = append(r.snaps, m)
		r.st.Merge(m)
		return "u"
	case "ms":
		if o.a >= len(r.snaps) {
			return "H"
		}
		r.st.Merge(r.snaps[o.a])
		return "u"
	case "h":
		// the typed getters are READS: calling them (results discarded, panics are the value family's business) leaves
		// what Get / GetAll return exactly as it was
		func() {
			defer func() { _ = recover() }()
			k := r.key(o.a)
			r.st.GetString(k)
			r.st.GetInt(k)
			r.st.GetFloat64(k)
			r.st.GetBool(k)
			r.st.GetSlice(k)
			r.st.GetMap(k)
			r.st.GetSliceOr(k, nil)
		}()
		return "b" + b01(r.st.Has(r.key(o.a)))
	case "d":
		r.st.Delete(r.key(o.a))
		return "u"
	case "c":
		r.st.Clear()
		return "u"
	case "k":
		ks := r.st.Keys()
		r.ksnaps = append(r.ksnaps, ks)
		return r.encKeys(ks)
	case "l":
		return "n" + strconv.Itoa(r.st.Len())
	case "xs":
		if o.a >= len(r.snaps) {
			return "H"
		}
		r.snaps[o.a][r.key(o.b)] = storeVal(o.c)
		return "u"
	case "xd":
		if o.a >= len(r.snaps) {
			return "H"
		}
		delete(r.snaps[o.a], r.key(o.b))
		return "u"
	case "xk":
		if o.a >= len(r.ksnaps) {
			return "H"
		}
		old, nw := r.key(o.b), r.key(o.c)
		ks := r.ksnaps[o.a]
		for i := range ks {
			if ks[i] == old {
				ks[i] = nw
			}
		}
		return "u"
	case "rs":
		if o.a >= len(r.snaps) {
			return "H"
		}
		return r.encMap(r.snaps[o.a])
	case "rk":
		if o.a >= len(r.ksnaps) {
			return "H"
		}
		return r.encKeys(r.ksnaps[o.a])
	}
	panic("store family: unknown op code " + o.code)
}

func mustParseOps(ops []string) []sop {
	out := make([]sop, len(ops))
	for i, s := range ops {
		o, err := parseSop(s)
		if err != nil {
			fmt.Fprintln(os.Stderr, err)
			os.Exit(2)
		}
		out[i] = o
	}
	return out
}

var storeHangs int32

func execStoreScenario(sc *StoreScenario) any {
	if atomic.LoadInt32(&storeHangs) >= storeMaxHangs {
		sc.Ops = []string{}
		return StoreObs{Resps: []string{}}
	}
	ops := mustParseOps(sc.Ops)
	for _, o := range ops { // out-of-table indices are a generator bug, not an observation
		chk := func(k int) {
			if k >= len(sc.Keys) {
				fmt.Fprintf(os.Stderr, "store scenario: key index %d outside table\n", k)
				os.Exit(2)
			}
		}
		switch o.code {
		case "g", "s", "h", "d":
			chk(o.a)
		case "xs", "xd":
			chk(o.b)
		case "xk":
			chk(o.b)
			chk(o.c)
		case "ml":
			for _, p := range o.lit {
				chk(p[0])
			}
		}
	}
	resps := make([]string, len(ops))
	var done int32
	fin := make(chan struct{})
	go func() {
		defer close(fin)
		r := newStoreRun(sc.Keys)
		for i, o := range ops {
			resps[i] = r.do(o)
			atomic.StoreInt32(&done, int32(i+1))
		}
	}()
	t := time.NewTimer(storeWatchdog)
	defer t.Stop()
	select {
	case <-fin:
		return StoreObs{Resps: resps}
	case <-t.C:
		// a call blocked (e.g. a lock never released): what was observed so far, then T
		if atomic.AddInt32(&storeHangs, 1) == storeMaxHangs {
			fmt.Fprintln(os.Stderr, "store family: watchdog fired", storeMaxHangs, "times; skipping the remaining scenarios")
		}
		n := int(atomic.LoadInt32(&done))
		out := append(append([]string{}, resps[:n]...), "T")
		return StoreObs{Resps: out}
	}
}

// replayStoreLine rebuilds the job of a recorded "store" / "storehist" line
func replayStoreLine(l line, jl *jobList) bool {
	switch l.Fam {
	case "store":
		var sc StoreScenario
		if err := json.Unmarshal(l.Sc, &sc); err != nil {
			fmt.Fprintln(os.Stderr, "bad scenario:", err)
			os.Exit(2)
		}
		jl.addStore(sc)
		return true
	case "storehist":
		var sc HistScenario
		if err := json.Unmarshal(l.Sc, &sc); err != nil {
			fmt.Fprintln(os.Stderr, "bad scenario:", err)
			os.Exit(2)
		}
		sc.tries = 2000 // a recorded interleaving cannot be forced: re-run until it shows again
		jl.addHist(sc)
		return true
	}
	return false
}

// ---- generators ----

var storeKeyPool = []string{"", "a", "b", "A", "é", "e\u0301", "日本", "🔑", " ", "a b", "a\x00b", "\n", "ключ", "k\"q\\"}

func storeOps(ops []sop) []string {
	out := make([]string, len(ops))
	for i, o := range ops {
		out[i] = o.String()
	}
	return out
}

// genStoreRandom: one random sequence over nk keys of the pool
func genStoreRandom(r *rng, maxLen int) StoreScenario {
	nk := 1 + r.intn(6)
	perm := make([]int, len(storeKeyPool))
	for i := range perm {
		perm[i] = i
	}
	for i := len(perm) - 1; i > 0; i-- {
		j := r.intn(i + 1)
		perm[i], perm[j] = perm[j], perm[i]
	}
	keys := make([]string, nk)
	for i := range keys {
		keys[i] = storeKeyPool[perm[i]]
	}
	if r.chance(30) { // the empty key is named by the property: make it frequent
		keys[r.intn(nk)] = ""
		seen := map[string]bool{}
		for i, k := range keys {
			for seen[k] {
				k = storeKeyPool[r.intn(len(storeKeyPool))]
			}
			seen[k] = true
			keys[i] = k
		}
	}
	var n int
	switch r.intn(4) {
	case 0:
		n = 1 + r.intn(10)
	case 1, 2:
		n = 5 + r.intn(60)
	default:
		n = 60 + r.intn(maxLen-59)
	}
	if n > maxLen {
		n = maxLen
	}
	key := func() int { return r.intn(nk) }
	val := func() int {
		if r.chance(15) {
			return 0
		}
		return 1 + r.intn(storeMaxTok)
	}
	nsnap, nks := 0, 0
	handle := func(have int) int {
		if have == 0 || r.chance(3) {
			return have + r.intn(2) // does not exist
		}
		if r.chance(50) {
			return have - 1 // the newest is the most interesting
		}
		return r.intn(have)
	}
	ops := make([]sop, 0, n)
	for len(ops) < n {
		w := r.intn(100)
		switch {
		case w < 20:
			ops = append(ops, sop{code: "s", a: key(), b: val()})
		case w < 28:
			ops = append(ops, sop{code: "g", a: key()})
		case w < 33:
			ops = append(ops, sop{code: "h", a: key()})
		case w < 40:
			ops = append(ops, sop{code: "d", a: key()})
		case w < 43:
			ops = append(ops, sop{code: "c"})
		case w < 48:
			ops = append(ops, sop{code: "l"})
		case w < 54:
			ops = append(ops, sop{code: "k"})
			nks++
		case w < 61:
			ops = append(ops, sop{code: "a"})
			nsnap++
		case w < 63:
			ops = append(ops, sop{code: "mn"})
		case w < 70:
			o := sop{code: "ml", lit: [][2]int{}}
			used := map[int]bool{}
			for i, m := 0, r.intn(nk+1); i < m; i++ {
				k := key()
				if used[k] {
					continue
				}
				used[k] = true
				o.lit = append(o.lit, [2]int{k, val()})
			}
			ops = append(ops, o)
			nsnap++
		case w < 75:
			ops = append(ops, sop{code: "ms", a: handle(nsnap)})
		case w < 83:
			ops = append(ops, sop{code: "xs", a: handle(nsnap), b: key(), c: val()})
		case w < 87:
			ops = append(ops, sop{code: "xd", a: handle(nsnap), b: key()})
		case w < 91:
			ops = append(ops, sop{code: "xk", a: handle(nks), b: key(), c: key()})
		case w < 96:
			ops = append(ops, sop{code: "rs", a: handle(nsnap)})
		default:
			ops = append(ops, sop{code: "rk", a: handle(nks)})
		}
	}
	return StoreScenario{Keys: keys, Ops: storeOps(ops)}
}

// storeAlphabet: the operations of the exhaustive family, over two keys (the empty key and a
// unicode key) and the values nil / int / string
func storeAlphabet() []sop {
	return []sop{
		{code: "s", a: 0, b: 1}, {code: "s", a: 0, b: 0}, {code: "s", a: 1, b: 2},
		{code: "g", a: 0}, {code: "h", a: 0}, {code: "h", a: 1}, {code: "d", a: 0},
		{code: "c"}, {code: "l"}, {code: "k"}, {code: "a"}, {code: "mn"},
		{code: "ml", lit: [][2]int{{0, 2}, {1, 0}}}, {code: "ms", a: 0},
		{code: "xs", a: 0, b: 1, c: 1}, {code: "xd", a: 0, b: 0}, {code: "xk", a: 0, b: 0, c: 1},
		{code: "rs", a: 0}, {code: "rk", a: 0},
	}
}

// genStoreExhaustive: every sequence of exactly `depth` operations of `alpha` (shorter ones are their
// prefixes: every operation answers), followed by a fixed probe that makes the final state visible
func genStoreExhaustive(alpha []sop, depth int, add func(StoreScenario)) {
	probe := []sop{{code: "g", a: 0}, {code: "g", a: 1}, {code: "l"}, {code: "rs", a: 0}, {code: "rk", a: 0}}
	keys := []string{"", "é"}
	idx := make([]int, depth)
	for {
		ops := make([]sop, 0, depth+len(probe))
		for _, i := range idx {
			ops = append(ops, alpha[i])
		}
		ops = append(ops, probe...)
		add(StoreScenario{Keys: keys, Ops: storeOps(ops)})
		p := depth - 1
		for p >= 0 {
			idx[p]++
			if idx[p] < len(alpha) {
				break
			}
			idx[p] = 0
			p--
		}
		if p < 0 {
			return
		}
	}
}

func genC14(r *rng, thorough bool, add func(StoreScenario)) {
	// hand-written boundary sequences
	fixed := [][]string{
		{"l", "k", "a", "g0", "h0", "d0", "c", "mn", "ml", "l", "rs0", "rs1", "rk0"},
		{"s0:0", "h0", "g0", "l", "k", "a", "d0", "h0", "rs0", "rk0"},
		{"s0:1", "a", "xs0:0:2", "xs0:1:3", "g0", "h1", "l", "rs0", "s0:4", "s1:5", "rs0", "ms0", "g0", "g1"},
		{"s0:1", "s1:2", "k", "xk0:0:1", "k", "rk0", "rk1", "c", "rk0", "rk1", "l", "k"},
		{"s0:1", "a", "c", "rs0", "l", "ms0", "l", "xd0:0", "g0", "rs0"},
		{"ml0:1,1:0", "xs0:0:3", "g0", "rs0", "ms0", "g0", "xd0:1", "h1", "ms0", "h1"},
		{"s0:4", "s0:5", "s0:0", "s0:12", "g0", "l", "d0", "d0", "l", "g0"},
	}
	for _, f := range fixed {
		add(StoreScenario{Keys: []string{"", "é"}, Ops: f})
	}
	// keys are opaque strings: "cfg.v" is not a path into the map stored under "cfg" (token 4 is map[string]any{"v": 4}),
	// "." is not a path into the value of ""; typed nil values (tokens 37, 38, 39) are stored and returned as they are
	for _, f := range [][]string{
		{"s0:4", "h1", "g1", "l", "k", "a", "d1", "h0", "g0", "s1:12", "g1", "d1", "g1", "h1"},
		{"s2:4", "h3", "g3", "l", "s3:20", "g3", "c", "h3"},
		{"ml0:4,2:12", "h1", "g1", "h3", "g3", "k", "a", "rs0"},
		{"s0:37", "g0", "h0", "a", "rs0", "s1:38", "g1", "ml2:39", "g2", "l", "k", "ms0", "g0", "d0", "g0"},
		{"s0:36", "h0", "g0", "a", "rs0", "s1:35", "h1", "g1", "ml2:36", "h2", "g2", "a", "rs1"},
	} {
		add(StoreScenario{Keys: []string{"cfg", "cfg.v", "", "."}, Ops: f})
	}
	// exhaustive: all sequences of length <= 4 over the 19-operation alphabet (2 keys); thorough adds
	// all sequences of length 5 over the mutators and snapshot operations
	genStoreExhaustive(storeAlphabet(), 4, add)
	nrand := 2000
	if thorough {
		nrand = 50000
		a := storeAlphabet()
		genStoreExhaustive([]sop{a[0], a[1], a[6], a[7], a[9], a[10], a[12], a[13], a[14], a[15], a[16]}, 5, add)
	}
	for i := 0; i < nrand; i++ {
		add(genStoreRandom(r, 200))
	}
}
