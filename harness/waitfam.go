package main

// Family "wait" (property C20): retry waits are honoured between attempts and are interruptible.
//
// Real time, monotonic clock.  One scenario = one flyt.Run of a single node or of a batch node whose
// exec callbacks are timed.  Nothing but booleans crosses the line protocol:
//
//   - "w:…:k:dur:1" (leaf) / "bw:…:i:k:dur:1" (batch item) is put in front of the exec event of attempt
//     k > 0 iff  start(attempt k) - end(attempt k-1) >= the configured wait.  This is a LOWER bound on a
//     gap: scheduler load can only make the gap larger, so it cannot flake.
//   - "w:…:k:dur:0" / "bw:…:0" is put behind the exec event of attempt k-1 iff the scenario scripted an
//     asynchronous cancellation for the wait before attempt k, that cancellation was delivered after
//     attempt k-1 had returned, attempt k never started and Run returned within promptMs of the
//     cancellation (generous: seconds for a one-hour wait, half the wait otherwise).
//   - "within" = the whole Run took at most limitMs (only scenarios that set a limit; generous).
//   - outcome "H" = the watchdog fired (Run did not return), "P" = a panic was recovered.
//
// Upper bounds ("within", promptness) could in principle be missed because of scheduler noise, so a
// scenario whose only problem is a missed upper bound is re-run (at most three runs, the first run
// that meets its bounds is reported).  A systematic extra wait misses the bound in every run.  Lower
// bounds and hangs are never retried.
//
// The asynchronous cancellation is not fired by wall-clock guesswork: it is scheduled cancelDelayMs
// after the exec callback(s) preceding the scripted wait have returned (and, on >= 2 workers, after
// every item has entered its first attempt), at which point every other path of the run is parked in
// a wait that is far longer than the delay.

import (
	"errors"
	"fmt"
	"strconv"
	"strings"
	"sync"
	"time"

	"github.com/mark3labs/flyt"
)

type WaitScenario struct {
	Kind        string       `json:"kind"` // canceled | deadline
	Leaf        *LeafCfg     `json:"leaf,omitempty"`
	LeafScript  *LeafScript  `json:"leafScript,omitempty"`
	Batch       *BatchCfg    `json:"batch,omitempty"`
	BatchScript *BatchScript `json:"batchScript,omitempty"`
	Sleeps      [][]int      `json:"sleeps"`   // [item][attempt]: ms the exec callback sleeps before it returns
	LimitMs     int          `json:"limitMs"`  // 0 = none
	PromptMs    int          `json:"promptMs"` // return-after-cancel bound
	// panic family (same scenario shape, fam "panic"): which callback panics ("p", "e<k>", "f", "o") and with what ("string": as the
	// library's own Must* accessors do; "error": a runtime.Error-like value)
	PanicAt       string `json:"panicAt,omitempty"`
	PanicVal      string `json:"panicVal,omitempty"`
	CancelDelayMs int    `json:"cancelDelayMs"` // the cancellation is delivered this long after the preceding attempt(s)
	WatchMs       int    `json:"watchMs"`       // watchdog
	Tag           string `json:"tag"`           // generator class (evidence only)
}

type WaitObs struct {
	Trace  []string `json:"trace"`
	Out    string   `json:"out"`
	Within bool     `json:"within"`
}

// addPanic: the same scenario shape and executor, judged by the driver's `panic` family
func (j *jobList) addPanic(sc WaitScenario) {
	s := sc
	j.jobs = append(j.jobs, job{fam: "panic", sc: &s, run: func() any { return execWaitScenario(&s) }})
}

// genPanic: one run of a single node in which one user callback panics — with a string, as every Must* accessor of the library
// does, or with an error value. The run must not return at all (the panic propagates to the caller of flyt.Run: outcome "P"), no
// further callback may be invoked, and in particular the run may not "succeed" with an empty action.
func genPanic(r *rng, thorough bool, emit func(WaitScenario)) {
	t := &tokGen{r: r}
	kinds := leafKinds()
	reps := 1
	if thorough {
		reps = 4
	}
	for rep := 0; rep < reps; rep++ {
		for _, cfg0 := range kinds {
			for _, N := range []int{1, 2, 3} {
				cfg := cfg0
				cfg.Budget, cfg.Wait = N, 0
				eff := N
				if !cfg.Retryable {
					eff = 1
				}
				ats := []string{"p", "o", "f"}
				for k := 0; k < eff; k++ {
					ats = append(ats, "e"+strconv.Itoa(k))
				}
				for _, at := range ats {
					if (at == "p" && cfg.PrepS == "absent") || (at == "o" && cfg.PostS == "absent") || (at == "f" && cfg.Fb != "custom") ||
						(at[0] == 'e' && cfg.ExecS == "absent") {
						continue
					}
					f := r.intn(eff + 1) // first succeeding attempt (eff = none succeeds)
					if at == "f" {
						f = eff
					}
					sc := waitLeafScenario(t, "canceled", cfg, f, make([]int, eff+1), nil, "panic-"+at)
					sc.PanicAt, sc.PanicVal = at, r.pick([]string{"string", "string", "error"})
					sc.WatchMs = 5000
					emit(sc)
				}
			}
		}
	}
}

// a batch ITEM whose exec callback panics (sequential batches only: on a pool goroutine a panic ends the process, flyt's and the
// harness's alike): nothing runs after it — no retry, no fallback, no later item, no post — in stop mode and in continue mode
func genPanicBatch(r *rng, thorough bool, emit func(WaitScenario)) {
	t := &tokGen{r: r}
	reps := 2
	if thorough {
		reps = 8
	}
	for rep := 0; rep < reps; rep++ {
		for _, stop := range []bool{true, false} {
			for _, N := range []int{1, 2, 3} {
				for n := 1; n <= 4; n++ {
					cfg := BatchCfg{Budget: N, Wait: 0, Fb: r.pick([]string{"pass", "custom"}), Conc: 0, Stop: stop,
						ExecS: r.pick([]string{"res", "any"}), HasPost: true, Shape: "results",
						Build: r.pick([]string{"option", "builder", "mixed", "mixed2", "bare"}), ExecVia: r.pick([]string{"", "", "copt", "cbuilder"})}
					fs := make([]int, n)
					for i := range fs {
						fs[i] = r.intn(N + 1)
					}
					sc := waitBatchScenario(t, "canceled", cfg, fs, false, nil, "panic-item")
					i := r.intn(n)
					k := r.intn(N) // may lie beyond the item's first success: then the panic is never reached
					sc.PanicAt, sc.PanicVal = "b"+strconv.Itoa(i)+":"+strconv.Itoa(k), r.pick([]string{"string", "error"})
					sc.WatchMs = 5000
					emit(sc)
				}
			}
		}
	}
}

func (j *jobList) addWait(sc WaitScenario) {
	s := sc
	j.jobs = append(j.jobs, job{fam: "wait", sc: &s, run: func() any { return execWaitScenario(&s) }})
}

const hourMs = 3600000

// ---- timing instrumentation ----

type waitRT struct {
	sc      *WaitScenario
	env     *runtimeEnv
	w       time.Duration // the wait the retry loop is configured with (0 for a non-retryable node)
	wMs     int
	wUs     int
	nItems  int
	wide    bool
	barrier int // number of "attempt preceding a scripted cancellation" returns after which the cancel is scheduled

	mu         sync.Mutex
	exit       map[[2]int]time.Time // (item, attempt) -> time just before the exec callback returned
	started    map[[2]int]bool      // (item, attempt) -> exec callback entered
	gapOK      map[[2]int]bool      // (item, attempt k>0) -> start(k) - end(k-1) >= w
	firstSeen  int                  // items that have entered attempt 0
	desigDone  int
	timer      *time.Timer
	cancelAt   time.Time
	cancelled  bool
	promptMiss bool
}

func (t *waitRT) waitCancelOf(i int) []int {
	if t.sc.Leaf != nil {
		if i == 0 {
			return t.sc.LeafScript.WaitCancel
		}
		return nil
	}
	if i < len(t.sc.BatchScript.Items) {
		return t.sc.BatchScript.Items[i].WaitCancel
	}
	return nil
}

func (t *waitRT) sleepOf(i, k int) time.Duration {
	if i < len(t.sc.Sleeps) && k < len(t.sc.Sleeps[i]) {
		return time.Duration(t.sc.Sleeps[i][k]) * time.Millisecond
	}
	return 0
}

// enter is the first thing an exec callback does.
func (t *waitRT) enter(i, k int) {
	now := time.Now() // monotonic reading, taken as early as possible
	t.mu.Lock()
	t.started[[2]int{i, k}] = true
	if k == 0 {
		t.firstSeen++
	} else if ex, ok := t.exit[[2]int{i, k - 1}]; ok {
		t.gapOK[[2]int{i, k}] = now.Sub(ex) >= t.w
	}
	t.maybeScheduleCancelLocked()
	t.mu.Unlock()
}

// leave is the last thing an exec callback does (after its scripted sleep).
func (t *waitRT) leave(i, k int) {
	if d := t.sleepOf(i, k); d > 0 {
		time.Sleep(d)
	}
	t.mu.Lock()
	t.exit[[2]int{i, k}] = time.Now() // as late as possible
	if contains(t.waitCancelOf(i), k+1) {
		t.desigDone++
	}
	t.maybeScheduleCancelLocked()
	t.mu.Unlock()
}

func (t *waitRT) maybeScheduleCancelLocked() {
	if t.timer != nil || t.barrier == 0 || t.desigDone < t.barrier {
		return
	}
	if t.wide && t.firstSeen < t.nItems {
		return
	}
	if t.sc.Kind == "neardeadline" {
		return // the context expires by itself (watchExpiry records when)
	}
	t.timer = time.AfterFunc(time.Duration(t.sc.CancelDelayMs)*time.Millisecond, func() {
		t.mu.Lock()
		t.cancelAt = time.Now()
		t.cancelled = true
		t.mu.Unlock()
		t.env.cancelNow()
	})
}

// interrupted: was the wait before attempt k of item i observed to be cut short by the cancellation?
func (t *waitRT) interrupted(i, k int, tEnd time.Time) bool {
	if t.wMs <= 0 || k <= 0 || !contains(t.waitCancelOf(i), k) {
		return false
	}
	ex, ok := t.exit[[2]int{i, k - 1}]
	if !ok || t.started[[2]int{i, k}] || !t.cancelled {
		return false
	}
	if !t.cancelAt.After(ex) || !t.cancelAt.Before(tEnd) {
		return false
	}
	if tEnd.Sub(t.cancelAt) > time.Duration(t.sc.PromptMs)*time.Millisecond {
		t.promptMiss = true
		return false
	}
	return true
}

// assemble inserts the measured wait events into the callback trace.
func (t *waitRT) assemble(raw []string, tEnd time.Time) []string {
	out := make([]string, 0, len(raw)+4)
	for _, ev := range raw {
		f := strings.Split(ev, ":")
		switch f[0] {
		case "e": // e:n:v:k:VAL
			k, _ := strconv.Atoi(f[3])
			if k > 0 && t.wMs > 0 && t.gapOK[[2]int{0, k}] {
				out = append(out, fmt.Sprintf("w:%s:%s:%d:%d:1", f[1], f[2], k, t.wMs))
			}
			out = append(out, ev)
			if t.interrupted(0, k+1, tEnd) {
				out = append(out, fmt.Sprintf("w:%s:%s:%d:%d:0", f[1], f[2], k+1, t.wMs))
			}
		case "be": // be:n:v:i:k:VAL
			i, _ := strconv.Atoi(f[3])
			k, _ := strconv.Atoi(f[4])
			if k > 0 && t.wMs > 0 && t.gapOK[[2]int{i, k}] {
				out = append(out, fmt.Sprintf("bw:%s:%s:%d:%d:%d:1", f[1], f[2], i, k, t.wMs))
			}
			out = append(out, ev)
			if t.interrupted(i, k+1, tEnd) {
				out = append(out, fmt.Sprintf("bw:%s:%s:%d:%d:%d:0", f[1], f[2], i, k+1, t.wMs))
			}
		default:
			out = append(out, ev)
		}
	}
	return out
}

// ---- running one scenario ----

type waitRun struct {
	obs        WaitObs
	boundsMiss bool // the only thing wrong may be a missed upper bound
}

func runWaitOnce(sc *WaitScenario) (res waitRun) {
	defer func() {
		if r := recover(); r != nil {
			res = waitRun{obs: WaitObs{Trace: []string{}, Out: "P", Within: true}}
		}
	}()
	// the flow family's runtime builds the nodes; its own wait-cancellation mechanism is left unused
	// (scripts are handed over with empty waitCancel lists), this file delivers the cancellation
	inner := &FlowScenario{Kind: sc.Kind, Ctx0: "live", LeafScripts: []LeafScript{}, BatchScripts: []BatchScript{}}
	e := &runtimeEnv{sc: inner, leafScr: map[[2]int]*LeafScript{}, batchScr: map[[2]int]*BatchScript{},
		nodes: map[int]flyt.Node{}, rts: map[int]*nodeRT{}}
	t := &waitRT{sc: sc, env: e, exit: map[[2]int]time.Time{}, started: map[[2]int]bool{}, gapOK: map[[2]int]bool{}}
	var node flyt.Node
	switch {
	case sc.Leaf != nil && sc.LeafScript != nil && sc.Batch == nil:
		ls := *sc.LeafScript
		ls.WaitCancel = []int{}
		e.leafScr[[2]int{0, 0}] = &ls
		if sc.Leaf.Retryable {
			t.wMs, t.wUs = sc.Leaf.Wait, sc.Leaf.WaitUs
		}
		t.nItems = 1
		if len(sc.LeafScript.WaitCancel) > 0 {
			t.barrier = 1
		}
		node = e.buildLeaf(0, sc.Leaf)
		e.leafExecEnter = func(k int) { t.enter(0, k) }
		e.leafExecLeave = func(k int) { t.leave(0, k) }
	case sc.Batch != nil && sc.BatchScript != nil && sc.Leaf == nil:
		bs := *sc.BatchScript
		bs.Items = append([]ItemScript{}, bs.Items...)
		for i := range bs.Items {
			bs.Items[i].WaitCancel = []int{}
		}
		e.batchScr[[2]int{0, 0}] = &bs
		t.wMs, t.wUs = sc.Batch.Wait, sc.Batch.WaitUs
		t.nItems = len(bs.Items)
		t.wide = sc.Batch.Conc >= 2
		for _, it := range sc.BatchScript.Items {
			if len(it.WaitCancel) > 0 {
				t.barrier++
			}
		}
		if !t.wide && t.barrier > 1 {
			t.barrier = 1 // one item at a time: the first scripted cancellation is the only one that can be reached
		}
		rt := &nodeRT{env: e, id: 0, visit: -1}
		e.rts[0] = rt
		b := &batchImpl{rt0: rt, cfg: sc.Batch}
		b.gate = func(i, k int) { t.enter(i, k); t.leave(i, k) }
		node = e.buildBatchWith(b)
	default:
		panic("bad wait scenario")
	}
	t.w = waitDur(t.wMs, t.wUs)
	e.nodes[0] = node

	if sc.PanicAt != "" {
		e.panicAt = sc.PanicAt
		if sc.PanicVal == "error" {
			e.panicVal = errors.New("a panic carrying an error value")
		} else {
			e.panicVal = "Result.MustString: value is not a string (a panic carrying a string)"
		}
	}
	e.runStore = flyt.NewSharedStore()
	e.makeCtx(sc.Kind)
	type runRes struct {
		a     flyt.Action
		err   error
		end   time.Time
		panic bool
	}
	ch := make(chan runRes, 1)
	tStart := time.Now()
	go func() {
		defer func() {
			if r := recover(); r != nil {
				ch <- runRes{panic: true, end: time.Now()}
			}
		}()
		a, err := flyt.Run(e.context(), node, e.runStore)
		ch <- runRes{a: a, err: err, end: time.Now()}
	}()
	watch := time.Duration(sc.WatchMs) * time.Millisecond
	if watch <= 0 {
		watch = 5 * time.Second
	}
	var out string
	var tEnd time.Time
	var raw []string
	snapshot := func() {
		e.mu.Lock()
		raw = append([]string{}, e.trace...)
		e.mu.Unlock()
	}
	select {
	case r := <-ch:
		tEnd = r.end
		switch {
		case r.panic:
			out = "P"
		case r.err == nil:
			out = "A" + string(r.a)
		case r.a == "":
			out = "E" + errStr(r.err)
		default:
			out = "B" + errStr(r.err) + ":" + string(r.a)
		}
		snapshot()
	case <-time.After(watch):
		out = "H"
		tEnd = time.Now()
		snapshot()    // what had happened when the watchdog fired
		e.cancelNow() // release whatever is parked in a wait
		select {
		case <-ch:
		case <-time.After(2 * time.Second):
		}
	}
	t.mu.Lock()
	if t.timer != nil {
		t.timer.Stop()
	}
	t.mu.Unlock()
	if sc.Kind == "neardeadline" {
		// the moment the real deadline fired is the moment of the cancellation
		if dl, ok := e.context().Deadline(); ok && e.context().Err() != nil {
			t.mu.Lock()
			t.cancelAt, t.cancelled = dl, true
			t.mu.Unlock()
		}
	}
	if e.ctx == nil {
		e.realStop()
	}
	t.mu.Lock()
	trace := t.assemble(raw, tEnd)
	promptMiss := t.promptMiss
	t.mu.Unlock()
	within := sc.LimitMs <= 0 || tEnd.Sub(tStart) <= time.Duration(sc.LimitMs)*time.Millisecond
	return waitRun{obs: WaitObs{Trace: trace, Out: out, Within: within},
		boundsMiss: out != "H" && out != "P" && (!within || promptMiss)}
}

func execWaitScenario(sc *WaitScenario) WaitObs {
	var r waitRun
	for try := 0; try < 3; try++ {
		r = runWaitOnce(sc)
		if !r.boundsMiss {
			break
		}
	}
	return r.obs
}

// ---- generators ----

func waitLeafKinds(thorough bool) []LeafCfg {
	d := "direct"
	ks := []LeafCfg{
		{Retryable: true, Fb: "absent", PrepS: d, ExecS: d, PostS: d},                // user struct implementing RetryableNode itself
		{Retryable: true, Fb: "pass", PrepS: d, ExecS: d, PostS: d},                  // embeds *BaseNode built with WithWait
		{Retryable: true, Fb: "custom", PrepS: d, ExecS: d, PostS: d, Impl: "plain"}, // + own ExecFallback
		{Retryable: true, Fb: "pass", PrepS: "res", ExecS: "res", PostS: "res", Build: "option"},
		{Retryable: true, Fb: "custom", PrepS: "any", ExecS: "any", PostS: "any", Build: "builder"},
		{Retryable: true, Fb: "pass", PrepS: "absent", ExecS: "res", PostS: "res", Build: "mixed"},
		{Retryable: true, Fb: "pass", PrepS: "res", ExecS: "any", PostS: "any", Build: "mixed2"}, // wait as option, budget on the builder
		{Retryable: true, Fb: "pass", PrepS: d, ExecS: d, PostS: d, Impl: "override"},            // embeds an unconfigured *BaseNode, own GetWait / GetMaxRetries
	}
	if thorough {
		ks = append(ks,
			LeafCfg{Retryable: true, Fb: "custom", PrepS: d, ExecS: d, PostS: d, Impl: "base"},
			LeafCfg{Retryable: true, Fb: "pass", PrepS: d, ExecS: d, PostS: "absent"},
			LeafCfg{Retryable: true, Fb: "custom", PrepS: "res", ExecS: "any", PostS: "res", Build: "builder"},
			LeafCfg{Retryable: true, Fb: "pass", PrepS: "any", ExecS: "res", PostS: "any", Build: "mixed"},
			LeafCfg{Retryable: true, Fb: "custom", PrepS: "any", ExecS: "any", PostS: "absent", Build: "option"})
	}
	return ks
}

// script of one retry loop: attempts 0..f-1 fail, attempt f succeeds (f >= N: never); sleeps per attempt
func firstSuccessMask(f, N int) uint {
	if f < N {
		return 1 << uint(f)
	}
	return 0
}

func sleepsFor(r *rng, slow bool, f, attempts int) []int {
	s := make([]int, attempts)
	if !slow {
		return s
	}
	for k := 0; k < attempts; k++ {
		if k < f {
			s[k] = 20 + r.intn(21) // a failing attempt that takes real time: 20..40 ms before it fails
		} else if r.chance(50) {
			s[k] = r.intn(11)
		}
	}
	return s
}

func waitLeafScenario(t *tokGen, kind string, cfg LeafCfg, f int, sleeps []int, wc []int, tag string) WaitScenario {
	N := cfg.Budget
	if !cfg.Retryable {
		N = 1
	}
	t.next, t.errN = t.r.intn(30), t.r.intn(20)
	scr := t.leafScript(0, 0, true, firstSuccessMask(f, N), N+1, t.r.chance(60), "=a")
	if wc == nil {
		wc = []int{}
	}
	scr.WaitCancel = wc
	c := cfg
	return WaitScenario{Kind: kind, Leaf: &c, LeafScript: &scr, Sleeps: [][]int{sleeps}, CancelDelayMs: 30, Tag: tag}
}

func waitBatchScenario(t *tokGen, kind string, cfg BatchCfg, fs []int, slow bool, wcs [][]int, tag string) WaitScenario {
	N := cfg.Budget
	t.next, t.errN = t.r.intn(30), t.r.intn(20)
	bs := BatchScript{N: 0, V: 0, Post: "=done", Items: []ItemScript{}}
	bs.Prep = batchItemsPrep(t, cfg.Shape, len(fs))
	var sleeps [][]int
	for i, f := range fs {
		it := t.itemScript(firstSuccessMask(f, N), N+1, t.r.chance(60), cfg.ExecS)
		// an error Result returned with a nil error is a success for the retry loop; keep the family's
		// scripts to plain successes so that "attempt f succeeds" means what it says
		for k := range it.Exec {
			if strings.HasPrefix(it.Exec[k], "x") {
				it.Exec[k] = t.tok()
			}
		}
		if wcs != nil && i < len(wcs) && wcs[i] != nil {
			it.WaitCancel = wcs[i]
		}
		bs.Items = append(bs.Items, it)
		sleeps = append(sleeps, sleepsFor(t.r, slow, f, N+1))
	}
	c := cfg
	return WaitScenario{Kind: kind, Batch: &c, BatchScript: &bs, Sleeps: sleeps, CancelDelayMs: 30, Tag: tag}
}

func pickKind(r *rng) string {
	switch x := r.intn(100); {
	case x < 25:
		return "deadline"
	case x < 40:
		return "cause"
	case x < 58:
		return "fardeadline"
	case x < 70:
		return "child"
	}
	return "canceled"
}

// watchdog for a scenario whose waits really elapse
func realWatch(N, w, items int) int { return 5000 + items*N*(w+60) }

func genC20(r *rng, thorough bool, emit func(WaitScenario)) {
	t := &tokGen{r: r}
	kinds := waitLeafKinds(thorough)
	batchCfg := func(N, w, conc int, stop bool) BatchCfg {
		return BatchCfg{Budget: N, Wait: w, Fb: r.pick([]string{"pass", "custom"}), Conc: conc, Stop: stop,
			ExecS: r.pick([]string{"res", "any"}), HasPost: true, Shape: "results", Build: r.pick([]string{"option", "builder", "mixed", "mixed2", "bare"}),
			ExecVia: r.pick([]string{"", "", "copt", "cbuilder"})}
	}

	// ---- (1) the long ones first, so that they overlap with everything else ----

	// (1a) a wait of W ms, cancellation 30 ms after attempt j >= 1 (j waits elapse, the next one is cut short);
	//      prompt = W/2
	W := 800
	if thorough {
		W = 1000
	}
	for N := 3; N <= 5; N++ {
		for j := N - 2; j >= 1; j-- {
			if !thorough && j > 2 {
				continue
			}
			for ki := range kinds {
				if !thorough && ki != (N+j)%len(kinds) {
					continue
				}
				cfg := kinds[ki]
				cfg.Budget, cfg.Wait = N, W
				sc := waitLeafScenario(t, pickKind(r), cfg, N, make([]int, N+1), []int{j + 1}, "cut-after-k")
				sc.PromptMs, sc.WatchMs = W/2, j*W+5000
				emit(sc)
			}
			if thorough || j == 1 {
				// batch: one item (sequential / one worker), and two items in lockstep on two workers
				for _, conc := range []int{0, 2} {
					n := 1
					if conc == 2 {
						n = 2
					}
					fs, wcs := make([]int, n), make([][]int, n)
					for i := range fs {
						fs[i], wcs[i] = N, []int{j + 1}
					}
					bsc := waitBatchScenario(t, pickKind(r), batchCfg(N, W, conc, false), fs, false, wcs, "batch-cut-after-k")
					bsc.PromptMs, bsc.WatchMs = W/2, j*W+5000
					emit(bsc)
				}
			}
		}
	}

	// (1b) one generous upper bound: w = 400 ms, the run may take (attempts-1)*400 + 200 ms
	//      (no wait before the first attempt, none after the last one)
	for _, N := range []int{2, 3} {
		for _, f := range []int{N, N - 1} {
			cfg := kinds[(N+f)%len(kinds)]
			cfg.Budget, cfg.Wait = N, 400
			sc := waitLeafScenario(t, "canceled", cfg, f, make([]int, N+1), nil, "upper-bound")
			att := N
			if f < N {
				att = f + 1
			}
			sc.LimitMs, sc.WatchMs = (att-1)*400+200, realWatch(N, 400, 1)
			emit(sc)
			for _, conc := range []int{0, 2} {
				n := 1
				if conc == 2 {
					n = 2
				}
				fs := make([]int, n)
				for i := range fs {
					fs[i] = f
				}
				bsc := waitBatchScenario(t, "canceled", batchCfg(N, 400, conc, false), fs, false, nil, "batch-upper-bound")
				bsc.LimitMs, bsc.WatchMs = (att-1)*400+200, realWatch(N, 400, n)
				emit(bsc)
			}
		}
	}

	// ---- (2) a one-hour wait ----
	for _, cfg0 := range kinds {
		for N := 1; N <= 5; N++ {
			cfg := cfg0
			cfg.Budget, cfg.Wait = N, hourMs
			// the first attempt is not delayed (success at attempt 0)
			sc := waitLeafScenario(t, "canceled", cfg, 0, sleepsFor(r, r.chance(50), 0, N+1), nil, "hour-first")
			sc.WatchMs = 5000
			emit(sc)
			if N == 1 {
				// budget exhausted by the one and only attempt: no wait after the last attempt
				sc := waitLeafScenario(t, "canceled", cfg, 1, sleepsFor(r, r.chance(50), 1, N+1), nil, "hour-last")
				sc.WatchMs = 5000
				emit(sc)
				continue
			}
			// cancellation 30 ms after attempt 0 failed (fast and slow failing attempt)
			for _, slow := range []bool{false, true} {
				kind := pickKind(r)
				if !slow && r.chance(40) {
					kind = "neardeadline" // a real deadline that expires inside the 1-hour wait (the attempt before it fails at once)
				}
				sc := waitLeafScenario(t, kind, cfg, N, sleepsFor(r, slow, N, N+1), []int{1}, "hour-cut")
				sc.PromptMs, sc.WatchMs = 2500, 5000
				emit(sc)
			}
		}
	}
	// not a RetryableNode: a configured wait is never read (one attempt, no wait)
	for _, fb := range []string{"absent", "custom"} {
		cfg := LeafCfg{Retryable: false, Budget: 3, Wait: hourMs, Fb: fb, PrepS: "direct", ExecS: "direct", PostS: "direct"}
		sc := waitLeafScenario(t, "canceled", cfg, 1, []int{0, 0}, nil, "hour-not-retryable")
		sc.WatchMs = 5000
		emit(sc)
	}
	for _, conc := range []int{0, 1, 2} {
		for N := 1; N <= 5; N++ {
			if !thorough && N == 4 {
				continue
			}
			// every item succeeds at once / fails its only attempt
			for _, f := range []int{0, 1} {
				if f == 1 && N != 1 {
					continue
				}
				bsc := waitBatchScenario(t, "canceled", batchCfg(N, hourMs, conc, false), []int{f, f, f}[:1+r.intn(3)], r.chance(50), nil, "batch-hour-nowait")
				bsc.WatchMs = 5000
				emit(bsc)
			}
			if N == 1 {
				continue
			}
			for _, slow := range []bool{false, true} {
				var fs []int
				var wcs [][]int
				if conc < 2 {
					// items before the cancelled one succeed at once; the ones after it are never reached
					i0 := r.intn(3)
					for i := 0; i < i0; i++ {
						fs, wcs = append(fs, 0), append(wcs, nil)
					}
					fs, wcs = append(fs, N), append(wcs, []int{1})
					for i := 0; i < r.intn(3); i++ {
						fs, wcs = append(fs, r.intn(N+1)), append(wcs, nil)
					}
				} else {
					// two workers, two items: both parked in the wait, or one done and one parked
					for i := 0; i < 2; i++ {
						if i == 1 && r.chance(40) {
							fs, wcs = append(fs, 0), append(wcs, nil)
						} else {
							fs, wcs = append(fs, N), append(wcs, []int{1})
						}
					}
					if r.chance(50) {
						fs[0], fs[1] = fs[1], fs[0]
						wcs[0], wcs[1] = wcs[1], wcs[0]
					}
				}
				kind := pickKind(r)
				if !slow && r.chance(40) {
					kind = "neardeadline"
				}
				bsc := waitBatchScenario(t, kind, batchCfg(N, hourMs, conc, conc < 2 && r.chance(30)), fs, slow, wcs, "batch-hour-cut")
				bsc.PromptMs, bsc.WatchMs = 2500, 5000
				emit(bsc)
			}
		}
	}

	// ---- (3) waits of 1..50 ms that really elapse: every gap is a lower bound ----
	waits := []int{1, 7, 50}
	if thorough {
		waits = []int{1, 2, 3, 5, 8, 10, 15, 20, 25, 35, 50}
	}
	for _, cfg0 := range kinds {
		for _, w := range waits {
			for N := 2; N <= 5; N++ {
				for f := 0; f <= N; f++ {
					for _, slow := range []bool{false, true} {
						if slow && f == 0 {
							continue
						}
						cfg := cfg0
						cfg.Budget, cfg.Wait = N, w
						if w <= 10 && (N+f)%2 == 0 {
							cfg.WaitUs = 300 + r.intn(190) // a wait that is not a whole number of milliseconds
						}
						sc := waitLeafScenario(t, "canceled", cfg, f, sleepsFor(r, slow, f, N+1), nil, "gaps")
						sc.WatchMs = realWatch(N, w, 1)
						emit(sc)
					}
				}
			}
		}
	}
	// no wait configured: no wait events
	for _, cfg0 := range kinds {
		for N := 2; N <= 5; N++ {
			cfg := cfg0
			cfg.Budget, cfg.Wait = N, 0
			sc := waitLeafScenario(t, "canceled", cfg, N, sleepsFor(r, r.chance(30), N, N+1), nil, "zero-wait")
			sc.WatchMs = realWatch(N, 0, 1)
			emit(sc)
		}
	}
	// batches: items with their own failure sequences; sequential, one worker, two workers (2 and 3 items)
	reps := 1
	if thorough {
		reps = 6
	}
	for rep := 0; rep < reps; rep++ {
		for _, conc := range []int{0, 1, 2} {
			for _, w := range waits {
				for N := 2; N <= 5; N++ {
					for n := 1; n <= 3; n++ {
						if !thorough && (N+n+w)%2 == 1 {
							continue
						}
						fs := make([]int, n)
						for i := range fs {
							fs[i] = r.intn(N + 1)
						}
						fs[r.intn(n)] = 1 + r.intn(N) // at least one retry
						bc := batchCfg(N, w, conc, conc < 2 && r.chance(25))
						if w <= 10 && (N+n)%2 == 0 {
							bc.WaitUs = 300 + r.intn(190)
						}
						bsc := waitBatchScenario(t, "canceled", bc, fs, r.chance(50), nil, "batch-gaps")
						bsc.WatchMs = realWatch(N, w, n)
						emit(bsc)
					}
				}
			}
		}
	}
	// random: any wait 1..50, any kind, any failure index
	nRand := 150
	if thorough {
		nRand = 8000
	}
	for i := 0; i < nRand; i++ {
		N, w := 2+r.intn(4), 1+r.intn(50)
		if r.chance(60) {
			cfg := kinds[r.intn(len(kinds))]
			cfg.Budget, cfg.Wait = N, w
			f := r.intn(N + 1)
			sc := waitLeafScenario(t, "canceled", cfg, f, sleepsFor(r, r.chance(50), f, N+1), nil, "gaps-random")
			sc.WatchMs = realWatch(N, w, 1)
			emit(sc)
		} else {
			n := 1 + r.intn(3)
			fs := make([]int, n)
			for j := range fs {
				fs[j] = r.intn(N + 1)
			}
			conc := r.intn(3)
			bsc := waitBatchScenario(t, "canceled", batchCfg(N, w, conc, conc < 2 && r.chance(25)), fs, r.chance(50), nil, "batch-gaps-random")
			bsc.WatchMs = realWatch(N, w, n)
			emit(bsc)
		}
	}
}
