package main

// Scenario generators for family "flow" (properties C01-C05, C10, C17, C18 and the deterministic
// batch paths of C02/C06/C07/C09/C11).

import (
	"fmt"
	"strconv"
	"strings"
)

type rng struct{ s uint64 }

func newRng(seed uint64) *rng { return &rng{s: seed*0x9E3779B97F4A7C15 + 0x1234567} }
func (r *rng) next() uint64 {
	r.s += 0x9E3779B97F4A7C15
	z := r.s
	z = (z ^ (z >> 30)) * 0xBF58476D1CE4E5B9
	z = (z ^ (z >> 27)) * 0x94D049BB133111EB
	return z ^ (z >> 31)
}
func (r *rng) intn(n int) int {
	if n <= 0 {
		return 0
	}
	return int(r.next() % uint64(n))
}
func (r *rng) chance(pct int) bool    { return r.intn(100) < pct }
func (r *rng) pick(l []string) string { return l[r.intn(len(l))] }

func ip(i int) *int { return &i }

// ---- leaf kinds ----

func leafKinds() []LeafCfg {
	d := "direct"
	ks := []LeafCfg{
		{Retryable: false, Fb: "absent", PrepS: d, ExecS: d, PostS: d},
		{Retryable: true, Fb: "absent", PrepS: d, ExecS: d, PostS: d},
		{Retryable: false, Fb: "custom", PrepS: d, ExecS: d, PostS: d},
		{Retryable: true, Fb: "custom", PrepS: d, ExecS: d, PostS: d, Impl: "plain"},
		{Retryable: true, Fb: "pass", PrepS: d, ExecS: d, PostS: d},
		{Retryable: true, Fb: "custom", PrepS: d, ExecS: d, PostS: d, Impl: "base"},
		{Retryable: true, Fb: "pass", PrepS: "absent", ExecS: d, PostS: d},
		{Retryable: true, Fb: "pass", PrepS: d, ExecS: d, PostS: "absent"},
		{Retryable: true, Fb: "pass", PrepS: d, ExecS: d, PostS: d, Impl: "override"},
	}
	for _, st := range [][3]string{{"res", "res", "res"}, {"any", "any", "any"}, {"res", "any", "res"}, {"any", "res", "any"},
		{"absent", "res", "res"}, {"any", "any", "absent"}} {
		for _, fb := range []string{"pass", "custom"} {
			for _, b := range []string{"option", "builder", "mixed", "mixed2"} {
				ks = append(ks, LeafCfg{Retryable: true, Fb: fb, PrepS: st[0], ExecS: st[1], PostS: st[2], Build: b})
			}
		}
	}
	return ks
}

// nodes whose embedded BaseNode did NOT go through NewBaseNode: the zero value (`&flyt.BaseNode{}`, or a BaseNode embedded
// by value). Its retry budget is 0 (no exec attempt at all, see DESIGN 7), its fallback the pass-through one; the budget of
// such a kind is fixed (Impl "zero*" makes the generators leave it alone).
func zeroBaseKinds() []LeafCfg {
	d := "direct"
	return []LeafCfg{
		{Retryable: true, Fb: "pass", PrepS: d, ExecS: d, PostS: d, Impl: "zeroptr"},
		{Retryable: true, Fb: "pass", PrepS: d, ExecS: d, PostS: "absent", Impl: "zeroptr"},
		{Retryable: true, Fb: "pass", PrepS: d, ExecS: d, PostS: d, Impl: "zeroval"},
		{Retryable: true, Fb: "pass", PrepS: d, ExecS: d, PostS: "absent", Impl: "zeroval"},
	}
}

func funcStyleKinds() []LeafCfg {
	var ks []LeafCfg
	for _, p := range []string{"res", "any"} {
		for _, e := range []string{"res", "any"} {
			for _, o := range []string{"res", "any"} {
				for _, b := range []string{"option", "builder", "mixed"} {
					for _, fb := range []string{"pass", "custom"} {
						ks = append(ks, LeafCfg{Retryable: true, Fb: fb, PrepS: p, ExecS: e, PostS: o, Build: b})
					}
				}
			}
		}
	}
	return ks
}

// tokens: distinct payload tokens handed out by a generator run
type tokGen struct {
	r    *rng
	next int
	errN int
}

func (t *tokGen) tok() string {
	t.next++
	if t.next >= 1001 && t.next <= 1011 { // reserved for the typed nils, the error-typed and the Action-typed payloads, pointers to slices
		t.next = 1012
	}
	return "t" + strconv.Itoa(t.next)
}
func (t *tokGen) err() int { t.errN++; return t.errN }

// value a callback returns for "ok": mostly a fresh token, sometimes nil
func (t *tokGen) val() string {
	if t.r.chance(8) {
		return "t0"
	}
	if t.r.chance(6) { // a typed nil (nil pointer / nil map / nil chan): must travel as it is, not as untyped nil
		return "t" + strconv.Itoa(1001+t.r.intn(11)) // … or a pointer to a slice (1009, 1010), a channel (1011), or a value whose type implements error (1005, 1006), or an Action-typed value (1007, 1008)
	}
	if t.r.chance(7) { // a flyt.Result used as an ordinary payload value (sometimes one holding another Result)
		if t.r.chance(25) {
			return "rr" + t.tok()
		}
		return "r" + t.tok()
	}
	return t.tok()
}

func (t *tokGen) errStrJ(withJunk bool) string {
	s := "!" + strconv.Itoa(t.err())
	if withJunk && t.r.chance(45) {
		// the callback also returns a value next to its error: a plain value, or (as a Result-style
		// function reporting failure "both ways" would) an error Result
		switch t.r.intn(6) {
		case 0, 1:
			s += "+xu" + strconv.Itoa(t.errN) // the same error, reported "both ways"
		case 2:
			s += "+xu" + strconv.Itoa(t.errN+50) // an error Result carrying a DIFFERENT error than the one returned
		case 3:
			s += "+r" + t.tok() // a successful Result next to the error
		default:
			s += "+" + t.tok()
		}
	}
	return s
}

// leafScript builds the script of one visit.
// execMask bit k = attempt k succeeds; attempts = number of scripted attempts.
func (t *tokGen) leafScript(n, v int, prepOK bool, execMask uint, attempts int, fbOK bool, post string) LeafScript {
	s := LeafScript{N: n, V: v, WaitCancel: []int{}}
	if prepOK {
		s.Prep = t.val()
	} else {
		s.Prep = t.errStrJ(true)
	}
	for k := 0; k < attempts; k++ {
		if execMask&(1<<uint(k)) != 0 {
			s.Exec = append(s.Exec, t.val())
		} else if k > 0 && strings.HasPrefix(s.Exec[k-1], "!") && t.r.chance(25) {
			// the SAME error value as the attempt before (a sentinel returned again): still one attempt each
			s.Exec = append(s.Exec, s.Exec[k-1])
		} else {
			s.Exec = append(s.Exec, t.errStrJ(true))
		}
	}
	if fbOK {
		s.Fb = t.val()
	} else {
		s.Fb = t.errStrJ(true)
	}
	s.Post = post
	return s
}

func postStr(t *tokGen, kind int, action string) string {
	switch kind {
	case 0:
		if t.r.chance(4) { // a blank (but not empty) action: an ordinary action like any other
			return "=" + t.r.pick([]string{" ", "\n", "\t "})
		}
		return "=" + action
	case 1:
		return "="
	default:
		s := "!" + strconv.Itoa(t.err())
		if t.r.chance(35) {
			s += "+=junk"
		}
		return s
	}
}

func singleRun(cfg LeafCfg, scr LeafScript) FlowScenario {
	return FlowScenario{Kind: "canceled", Ctx0: "live",
		Nodes:       []NodeDef{{ID: 0, Leaf: &cfg}},
		LeafScripts: []LeafScript{scr}, BatchScripts: []BatchScript{},
		Steps: []Step{{Run: ip(0)}}}
}

// the same leaf as the first step of a two-node flow (node 1 is a plain successor on action "a"/"default")
func asFlowStep(cfg LeafCfg, scr LeafScript, t *tokGen) FlowScenario {
	succ := LeafCfg{Retryable: true, Budget: 1, Fb: "pass", PrepS: "direct", ExecS: "direct", PostS: "direct"}
	s1 := t.leafScript(1, 0, true, 1, 1, true, "=done")
	return FlowScenario{Kind: "canceled", Ctx0: "live",
		Nodes: []NodeDef{{ID: 0, Leaf: &cfg}, {ID: 1, Leaf: &succ},
			// the last row is a blank-action connection (table-driven wiring with an empty action cell): legal and
			// dead, because no run ever reports the empty action; it must not disturb the "default" row
			{ID: 2, Flow: &FlowDef{Start: ip(0), Ops: []Conn{{Src: 0, Action: "a", Dst: ip(1)}, {Src: 0, Action: "default", Dst: ip(1)}, {Src: 0, Action: "", Dst: nil}}}}},
		LeafScripts: []LeafScript{scr, s1}, BatchScripts: []BatchScript{},
		Steps: []Step{{Run: ip(2)}, {Run: ip(2)}}} // twice: every run gets its own store; the flow object is reused
}

// genLeafRuns: node kinds x budgets x outcome scripts (C01, C02, C17, C18)
func genLeafRuns(r *rng, kinds []LeafCfg, budgets []int, fullMasks bool, emit func(FlowScenario)) {
	t := &tokGen{r: r}
	cnt := 0
	for _, k := range kinds {
		for _, N := range budgets {
			cfg := k
			cfg.Budget = N
			eff := N
			if !cfg.Retryable {
				eff = 1
			}
			att := eff + 1
			var masks []uint
			if fullMasks && att <= 4 {
				for m := uint(0); m < 1<<uint(att); m++ {
					masks = append(masks, m)
				}
			} else {
				// first success at k = 0..eff (eff = never), plus two random masks
				for fs := 0; fs <= eff; fs++ {
					if fs == eff {
						masks = append(masks, 0)
					} else {
						masks = append(masks, 1<<uint(fs))
					}
				}
				masks = append(masks, uint(r.next())&((1<<uint(att))-1), uint(r.next())&((1<<uint(att))-1))
			}
			for _, m := range masks {
				for _, prepOK := range []bool{true, false} {
					if !prepOK && m != 0 {
						continue
					}
					for _, fbOK := range []bool{true, false} {
						if cfg.Fb != "custom" && !fbOK {
							continue
						}
						for pk := 0; pk < 3; pk++ {
							t.next, t.errN = r.intn(30), r.intn(20)
							scr := t.leafScript(0, 0, prepOK, m, att, fbOK, postStr(t, pk, "a"))
							// Result-style functions may hand an error Result on as a VALUE (nil error)
							if cfg.ExecS == "res" && r.chance(12) {
								for k2, e := range scr.Exec {
									if !strings.HasPrefix(e, "!") {
										scr.Exec[k2] = "xu" + strconv.Itoa(t.err())
										break
									}
								}
							}
							if cfg.PrepS == "res" && prepOK && r.chance(8) {
								scr.Prep = "xu" + strconv.Itoa(t.err())
							}
							cnt++
							if (cnt/3)%3 == 0 { // (not cnt%3: that would tie the variant to the post kind)
								emit(asFlowStep(cfg, scr, t))
							} else if cnt%7 == 3 && cfg.PrepS != "absent" {
								// the same node object is run a second time, on a fresh store, with a different script
								// (nothing of the first run may survive in the node): often "all attempts fail, the
								// fallback supplies the value" after a first run whose exec succeeded
								sc := singleRun(cfg, scr)
								m2 := uint(0)
								if r.chance(40) {
									m2 = uint(r.next()) & ((1 << uint(att)) - 1)
								}
								sc.LeafScripts = append(sc.LeafScripts, t.leafScript(0, 1, true, m2, att, r.chance(70), postStr(t, r.intn(3), "b")))
								sc.Steps = append(sc.Steps, Step{Run: ip(0)})
								emit(sc)
							} else {
								emit(singleRun(cfg, scr))
							}
						}
					}
				}
			}
		}
	}
}

// genWaitCancelRuns: an ASYNCHRONOUS cancellation arrives while Run waits between two attempts (no callback
// cancels): retryable kinds x budgets x interrupted wait x fallback outcome x context kind. The wait before
// attempt `at` is interrupted; earlier waits fire, so they are short when at > 1.
func genWaitCancelRuns(r *rng, kinds []LeafCfg, emit func(FlowScenario)) {
	t := &tokGen{r: r}
	ctxKinds := []string{"canceled", "deadline", "cause", "fardeadline", "child"}
	cnt := 0
	for _, k := range kinds {
		if !k.Retryable || k.ExecS == "absent" {
			continue
		}
		for _, N := range []int{2, 3} {
			for at := 1; at < N; at++ {
				if at == 2 && cnt%4 != 0 { // a fired 1.5 s wait each: keep these few
					cnt++
					continue
				}
				for _, fbOK := range []bool{true, false} {
					if k.Fb != "custom" && !fbOK {
						continue
					}
					cfg := k
					cfg.Budget = N
					cfg.Wait = 3600000
					if at > 1 {
						// the cancellation is sent 30 ms into the SECOND wait: the wait must outlast that by a margin no scheduler
						// delay eats up (120 ms did not, once, with every core busy: the wait elapsed before the canceller ran)
						cfg.Wait = 1500
					}
					t.next, t.errN = r.intn(30), r.intn(20)
					scr := t.leafScript(0, 0, true, 0, N+1, fbOK, postStr(t, cnt%2, "a"))
					scr.WaitCancel = []int{at}
					cnt++
					var sc FlowScenario
					if cnt%3 == 0 {
						sc = asFlowStep(cfg, scr, t)
						sc.Steps = sc.Steps[:1]
					} else {
						sc = singleRun(cfg, scr)
					}
					sc.Kind = ctxKinds[cnt%len(ctxKinds)]
					emit(sc)
				}
			}
		}
	}
}

// ---- batch scenarios (deterministic paths: sequential, one worker, and schedule-independent c>=2) ----

func (t *tokGen) itemScript(mask uint, attempts int, fbOK bool, execS string) ItemScript {
	it := ItemScript{WaitCancel: []int{}}
	for k := 0; k < attempts; k++ {
		if mask&(1<<uint(k)) != 0 {
			v := t.tok()
			if execS == "res" && t.r.chance(10) {
				v = "x" + "u" + strconv.Itoa(t.err()) // the exec function returns an error Result, nil error
			}
			it.Exec = append(it.Exec, v)
		} else if k > 0 && strings.HasPrefix(it.Exec[k-1], "!") && t.r.chance(25) {
			it.Exec = append(it.Exec, it.Exec[k-1]) // the SAME error value as the attempt before
		} else {
			it.Exec = append(it.Exec, t.errStrJ(true))
		}
	}
	if fbOK {
		it.Fb = t.val()
	} else {
		it.Fb = t.errStrJ(true) // a fallback that fails may still return a value (even a Result) next to its error
	}
	return it
}

func batchItemsPrep(t *tokGen, shape string, n int) string {
	if shape == "nil" || n == 0 {
		return "-"
	}
	parts := []string{}
	errItem := false
	for i := 0; i < n; i++ {
		// unusual but legal items: an ERROR Result handed over by prep (at most one per batch: it has no payload to
		// tell it from another one), a Result whose value is itself a Result
		if (shape == "results" || shape == "anys") && t.r.chance(9) {
			if !errItem && t.r.chance(50) {
				errItem = true
				parts = append(parts, "xu"+strconv.Itoa(60+t.err()))
			} else if shape == "results" {
				parts = append(parts, "rr"+t.tok())
			} else {
				parts = append(parts, "r"+t.tok())
			}
			continue
		}
		switch shape {
		case "typed":
			// ints: tokens = 1 mod 8
			t.next++
			for t.next%8 != 1 {
				t.next++
			}
			parts = append(parts, "t"+strconv.Itoa(t.next))
		case "results":
			parts = append(parts, "r"+t.tok())
		case "single":
			// a non-slice value (token kind 5 is a slice, which ToSlice would spread) — a POINTER to a slice is one
			if t.r.chance(30) {
				parts = append(parts, "t"+strconv.Itoa(1009+t.r.intn(3))) // … or a channel (1011)
				continue
			}
			t.next++
			for t.next%8 == 5 {
				t.next++
			}
			parts = append(parts, "t"+strconv.Itoa(t.next))
		default:
			parts = append(parts, t.tok())
		}
	}
	return strings.Join(parts, ",")
}

func randBatchCfg(r *rng, allowWide bool) BatchCfg {
	c := BatchCfg{Budget: 1 + r.intn(3), Wait: 0, Fb: r.pick([]string{"pass", "pass", "custom"}),
		ExecS: r.pick([]string{"res", "res", "any"}), HasPost: !r.chance(8),
		Shape: r.pick([]string{"results", "results", "anys", "typed", "single", "nil"}),
		Build: r.pick([]string{"option", "builder", "bare", "mixed", "mixed2"}), ExecVia: r.pick([]string{"", "", "copt", "cbuilder"})}
	switch r.intn(4) {
	case 0, 1:
		c.Conc = 0
	case 2:
		c.Conc = 1
	default:
		if allowWide {
			c.Conc = 2 + r.intn(3)
		} else {
			c.Conc = 1
		}
	}
	c.Stop = r.chance(40)
	if c.Conc >= 2 {
		c.Stop = false // schedule-independent only in continue mode
	}
	return c
}

func randBatchScript(t *tokGen, n, v int, cfg *BatchCfg, nItems int, pFail int, post string) BatchScript {
	r := t.r
	bs := BatchScript{N: n, V: v, Post: post}
	if cfg.Shape == "single" {
		nItems = 1
	}
	if cfg.Shape == "nil" {
		nItems = 0
	}
	bs.Prep = batchItemsPrep(t, cfg.Shape, nItems)
	for i := 0; i < nItems; i++ {
		att := cfg.Budget + 1
		var m uint = (1 << uint(att)) - 1
		if r.chance(pFail) {
			m = uint(r.next()) & ((1 << uint(att)) - 1)
		}
		bs.Items = append(bs.Items, t.itemScript(m, att, r.chance(60), cfg.ExecS))
	}
	if bs.Items == nil {
		bs.Items = []ItemScript{}
	}
	return bs
}

// ---- random flows ----

type flowParams struct {
	leaves, batches int
	depth           int // nesting depth of flows (1 = flat)
	actions         []string
	maxVisits       int
	pFail           int  // % of exec attempts that fail
	pPhaseFail      int  // % of visits whose prep/post fails
	funcStyle       bool // allow function-style leaves
	reconnect       bool // add connect steps between runs
	runs            int
	wideBatch       bool
}

func randLeafCfg(r *rng, funcStyle bool) LeafCfg {
	ks := leafKinds()
	var k LeafCfg
	for {
		k = ks[r.intn(len(ks))]
		isFunc := k.Build != ""
		if isFunc && !funcStyle {
			continue
		}
		if k.PrepS == "absent" { // visit counting across repeated runs needs a prep callback
			continue
		}
		break
	}
	k.Budget = 1 + r.intn(3)
	if k.Fb == "absent" && !k.Retryable && r.chance(50) {
		k.Impl = "value" // the plain Node implementation is used by value (node 0: the zero value of its type)
	}
	return k
}

func randFlow(r *rng, p flowParams) FlowScenario {
	t := &tokGen{r: r, next: r.intn(20), errN: r.intn(10)}
	sc := FlowScenario{Kind: "canceled", Ctx0: "live", LeafScripts: []LeafScript{}, BatchScripts: []BatchScript{}}
	id := 0
	var level []int // nodes available as members for the next level of flows
	for i := 0; i < p.leaves; i++ {
		cfg := randLeafCfg(r, p.funcStyle)
		sc.Nodes = append(sc.Nodes, NodeDef{ID: id, Leaf: &cfg})
		eff := cfg.Budget
		if !cfg.Retryable {
			eff = 1
		}
		for v := 0; v < p.maxVisits; v++ {
			att := eff + 1
			var m uint = (1 << uint(att)) - 1
			if r.chance(p.pFail) {
				m = uint(r.next()) & ((1 << uint(att)) - 1)
			}
			prepOK := !r.chance(p.pPhaseFail)
			pk := 0
			if r.chance(12) {
				pk = 1
			} else if r.chance(p.pPhaseFail) {
				pk = 2
			}
			sc.LeafScripts = append(sc.LeafScripts, t.leafScript(id, v, prepOK, m, att, r.chance(70), postStr(t, pk, r.pick(p.actions))))
		}
		level = append(level, id)
		id++
	}
	for i := 0; i < p.batches; i++ {
		cfg := randBatchCfg(r, p.wideBatch)
		sc.Nodes = append(sc.Nodes, NodeDef{ID: id, Batch: &cfg})
		for v := 0; v < p.maxVisits; v++ {
			pk := 0
			if r.chance(15) {
				pk = 1
			} else if r.chance(p.pPhaseFail) {
				pk = 2
			}
			bs := randBatchScript(t, id, v, &cfg, r.intn(4), p.pFail, postStr(t, pk, r.pick(p.actions)))
			if r.chance(p.pPhaseFail) {
				bs.Prep = "!" + strconv.Itoa(t.err())
			}
			sc.BatchScripts = append(sc.BatchScripts, bs)
		}
		level = append(level, id)
		id++
	}
	all := append([]int{}, level...)
	var flows []int
	root := -1
	for d := 1; d <= p.depth; d++ {
		nf := 1
		if d < p.depth {
			nf = 1 + r.intn(2)
		}
		var made []int
		for j := 0; j < nf; j++ {
			// members: some nodes from below (inner flows may be reused by several parents)
			k := 2 + r.intn(4)
			var members []int
			pool := append([]int{}, all...)
			if d > 1 && len(flows) > 0 {
				members = append(members, flows[r.intn(len(flows))]) // make sure nesting happens
			}
			for len(members) < k && len(pool) > 0 {
				members = append(members, pool[r.intn(len(pool))])
			}
			fd := FlowDef{}
			if r.chance(97) {
				fd.Start = ip(members[r.intn(len(members))])
			}
			acts := append([]string{}, p.actions...)
			acts = append(acts, "default")
			if r.chance(35) {
				acts = append(acts, "") // a connection on the empty action: never followed, never in the way
			}
			nOps := len(members)*2 + r.intn(len(members)*len(acts)+1)
			for o := 0; o < nOps; o++ {
				c := Conn{Src: members[r.intn(len(members))], Action: acts[r.intn(len(acts))]}
				if !r.chance(12) {
					c.Dst = ip(members[r.intn(len(members))])
				}
				fd.Ops = append(fd.Ops, c)
			}
			if fd.Ops == nil {
				fd.Ops = []Conn{}
			}
			sc.Nodes = append(sc.Nodes, NodeDef{ID: id, Flow: &fd})
			made = append(made, id)
			root = id
			id++
		}
		flows = made
		all = append(all, made...)
	}
	for i := 0; i < p.runs; i++ {
		if i > 0 && p.reconnect {
			// re-wire something between the runs
			for j := 0; j < 1+r.intn(2); j++ {
				f := sc.Nodes[len(sc.Nodes)-1-r.intn(minInt(len(sc.Nodes), 3))]
				if f.Flow == nil || len(f.Flow.Ops) == 0 {
					continue
				}
				o := f.Flow.Ops[r.intn(len(f.Flow.Ops))]
				cs := ConnectStep{Flow: f.ID, Src: o.Src, Action: o.Action}
				if !r.chance(30) {
					cs.Dst = ip(f.Flow.Ops[r.intn(len(f.Flow.Ops))].Src)
				}
				sc.Steps = append(sc.Steps, Step{Connect: &cs})
			}
		}
		st := Step{Run: ip(root)}
		if r.chance(25) {
			st.Via = "flow"
		}
		sc.Steps = append(sc.Steps, st)
	}
	return sc
}

func minInt(a, b int) int {
	if a < b {
		return a
	}
	return b
}

// ---- exhaustive small graphs (C03): 3 nodes x 2 actions x {unconnected, nil, n0, n1, n2} ----

func smallGraph(code int, pattern int, t *tokGen, twice bool) FlowScenario {
	simple := LeafCfg{Retryable: true, Budget: 1, Fb: "pass", PrepS: "direct", ExecS: "direct", PostS: "direct"}
	sc := FlowScenario{Kind: "canceled", Ctx0: "live", BatchScripts: []BatchScript{}}
	acts := []string{"a", "ab"}
	fd := FlowDef{Start: ip(0), Ops: []Conn{}}
	c := code
	for n := 0; n < 3; n++ {
		cfg := simple
		sc.Nodes = append(sc.Nodes, NodeDef{ID: n, Leaf: &cfg})
		for _, a := range acts {
			tgt := c % 5
			c /= 5
			switch tgt {
			case 0: // unconnected
			case 1:
				fd.Ops = append(fd.Ops, Conn{Src: n, Action: a, Dst: nil})
			default:
				fd.Ops = append(fd.Ops, Conn{Src: n, Action: a, Dst: ip(tgt - 2)})
			}
		}
		// per-visit actions: pattern bit n chooses a,ab,a,ab… or ab,a,ab,a…; the 5th visit returns "c" (unconnected)
		for v := 0; v < 5; v++ {
			a := acts[(v+(pattern>>uint(n))&1)%2]
			if v == 4 {
				a = "c"
			}
			sc.LeafScripts = append(sc.LeafScripts, t.leafScript(n, v, true, 1, 1, true, "="+a))
		}
	}
	sc.Nodes = append(sc.Nodes, NodeDef{ID: 3, Flow: &fd})
	sc.Steps = []Step{{Run: ip(3)}}
	if twice {
		sc.Steps = append(sc.Steps, Step{Run: ip(3)})
	}
	return sc
}

// connect-order scenarios: up to two writes per (node, action) pair, in every order
func connectOrders(r *rng, t *tokGen) FlowScenario {
	sc := smallGraph(0, r.intn(8), t, true)
	fd := sc.Nodes[3].Flow
	type pr struct {
		n int
		a string
	}
	var ops []Conn
	for n := 0; n < 3; n++ {
		for _, a := range []string{"a", "ab"} {
			w := r.intn(3)
			for i := 0; i < w; i++ {
				c := Conn{Src: n, Action: a}
				if tg := r.intn(4); tg < 3 {
					c.Dst = ip(tg)
				}
				ops = append(ops, c)
			}
		}
	}
	// random order
	for i := len(ops) - 1; i > 0; i-- {
		j := r.intn(i + 1)
		ops[i], ops[j] = ops[j], ops[i]
	}
	fd.Ops = ops
	if fd.Ops == nil {
		fd.Ops = []Conn{}
	}
	// re-connect between the two runs
	if len(ops) > 0 && r.chance(70) {
		o := ops[r.intn(len(ops))]
		cs := ConnectStep{Flow: 3, Src: o.Src, Action: o.Action}
		if tg := r.intn(4); tg < 3 {
			cs.Dst = ip(tg)
		}
		sc.Steps = []Step{{Run: ip(3)}, {Connect: &cs}, {Run: ip(3)}}
	}
	return sc
}

// ---- fault / cancellation injection at every position of an executed path ----

// injectAt returns a copy of sc in which the callback that produced trace event ev is made to fail
// (mode "fail") or to cancel the context (mode "cancel").
func injectAt(sc FlowScenario, ev string, mode string, errN int) (FlowScenario, bool) {
	f := strings.Split(ev, ":")
	out := sc
	out.LeafScripts = append([]LeafScript{}, sc.LeafScripts...)
	out.BatchScripts = append([]BatchScript{}, sc.BatchScripts...)
	n, _ := strconv.Atoi(f[1])
	v, _ := strconv.Atoi(f[2])
	if mode != "cancel" {
		switch errN % 9 {
		case 3:
			errN = nilPtrErrN // the injected failure is a typed-nil error value (non-nil as an `error`)
		case 6:
			errN = zeroCodeErrN // … the zero value of a scalar error type
		}
	}
	mod := func(s string) string {
		if mode == "cancel" {
			if strings.HasSuffix(s, "*") {
				return s
			}
			return s + "*"
		}
		if f[0] == "o" || f[0] == "bo" {
			if errN%2 == 0 {
				return "!" + strconv.Itoa(errN) + "+=rollback" // the callback returns an action together with its error
			}
			return "!" + strconv.Itoa(errN)
		}
		if errN%3 == 0 && (f[0] == "p" || f[0] == "e" || f[0] == "f") {
			return "!" + strconv.Itoa(errN) + "+t" + strconv.Itoa(40+errN%7) // … a value together with its error
		}
		return "!" + strconv.Itoa(errN)
	}
	switch f[0] {
	case "p", "e", "f", "o":
		for i := range out.LeafScripts {
			ls := out.LeafScripts[i]
			if ls.N != n || ls.V != v {
				continue
			}
			ls.Exec = append([]string{}, ls.Exec...)
			switch f[0] {
			case "p":
				ls.Prep = mod(ls.Prep)
			case "e":
				k, _ := strconv.Atoi(f[3])
				if k >= len(ls.Exec) {
					return out, false
				}
				ls.Exec[k] = mod(ls.Exec[k])
			case "f":
				ls.Fb = mod(ls.Fb)
			case "o":
				ls.Post = mod(ls.Post)
			}
			out.LeafScripts[i] = ls
			return out, true
		}
	case "bp", "be", "bf", "bo":
		for i := range out.BatchScripts {
			bs := out.BatchScripts[i]
			if bs.N != n || bs.V != v {
				continue
			}
			bs.Items = append([]ItemScript{}, bs.Items...)
			switch f[0] {
			case "bp":
				if mode == "cancel" {
					bs.Prep = mod(bs.Prep)
				} else {
					bs.Prep = "!" + strconv.Itoa(errN)
				}
			case "bo":
				bs.Post = mod(bs.Post)
			case "be", "bf":
				it, _ := strconv.Atoi(f[3])
				if it >= len(bs.Items) {
					return out, false
				}
				is := bs.Items[it]
				is.Exec = append([]string{}, is.Exec...)
				if f[0] == "bf" {
					is.Fb = mod(is.Fb)
				} else {
					k, _ := strconv.Atoi(f[4])
					if k >= len(is.Exec) {
						return out, false
					}
					is.Exec[k] = mod(is.Exec[k])
				}
				bs.Items[it] = is
			}
			out.BatchScripts[i] = bs
			return out, true
		}
	}
	return out, false
}

func hasWideBatch(sc *FlowScenario) bool {
	for _, n := range sc.Nodes {
		if n.Batch != nil && n.Batch.Conc >= 2 {
			return true
		}
	}
	return false
}

// withInjections emits the base scenario and one variant per executed callback
func withInjections(sc FlowScenario, mode string, emit func(FlowScenario)) {
	emit(sc)
	base := execFlowScenario(&sc)
	if len(base.Runs) == 0 {
		return
	}
	for i, ev := range base.Runs[0].Trace {
		v, ok := injectAt(sc, ev, mode, 500+i)
		if ok {
			emit(v)
		}
	}
}

var _ = fmt.Sprint
