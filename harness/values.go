package main

// Token <-> Go value and error-root <-> Go error tables, and the text codec shared with the Lean
// driver (FlytModel/Codec.lean).

import (
	"context"
	"errors"
	"fmt"
	"reflect"
	"strconv"
	"strings"
	"sync"
	"time"

	"github.com/mark3labs/flyt"
)

type pair struct{ A int }

// payErr: an ordinary payload value whose type implements error (returned by a callback WITH a nil error)
type payErr struct{ n int }

func (e payErr) Error() string { return "payload error value " + strconv.Itoa(e.n) }

var (
	valMu  sync.Mutex
	valTab = map[int]any{}
)

// goVal returns THE Go value standing for token n (same object on every call, so pointer identity
// can be checked). Token 0 is nil; the kind of value is n%8.
func goVal(n int) any {
	if n == 0 {
		return nil
	}
	valMu.Lock()
	defer valMu.Unlock()
	if v, ok := valTab[n]; ok {
		return v
	}
	var v any
	if n == 1007 || n == 1008 { // payload values whose dynamic type is flyt.Action (the empty action, and a non-empty one): data like any other
		if n == 1007 {
			v = flyt.Action("")
		} else {
			v = flyt.Action("go")
		}
		valTab[n] = v
		return v
	}
	if n == 1011 { // a non-nil CHANNEL holding two values, closed: one value, one batch item — not a stream of items
		c := make(chan any, 2)
		c <- 1
		c <- "x"
		close(c)
		v = c
		valTab[n] = v
		return v
	}
	if n == 1009 || n == 1010 { // POINTERS to slices (a handle on a work list, not a work list): not slices — one value, one batch item
		if n == 1009 {
			v = &[]any{1, "x", 3.5}
		} else {
			v = &[]int{}
		}
		valTab[n] = v
		return v
	}
	if n >= 1001 && n <= 1006 { // typed nils: one token per type (all nil values of one type are the same value); 1005/1006: payloads whose type implements error
		switch n {
		case 1005:
			v = errors.New("a payload that happens to be an error value")
		case 1006:
			v = payErr{n: 6}
		case 1001:
			v = (*int)(nil)
		case 1002:
			v = map[string]any(nil)
		case 1003:
			v = (*pair)(nil)
		default:
			v = (chan int)(nil)
		}
		valTab[n] = v
		return v
	}
	switch n % 8 {
	case 1:
		v = n
	case 2:
		v = "s" + strconv.Itoa(n)
	// identity-bearing values (pointers, maps, slices) of different tokens have EQUAL contents: a reflect.DeepEqual-style
	// shortcut that confuses two of them is then observable (they are told apart by identity only)
	case 3:
		p := new(int)
		*p = 3
		v = p
	case 4:
		v = map[string]any{"v": 4}
	case 5:
		v = []any{5, "x"}
	case 6:
		v = pair{A: n}
	case 7:
		v = float64(n) + 0.25
	case 0:
		v = [2]int{n, n}
	}
	valTab[n] = v
	return v
}

// tokOf is the inverse of goVal; 9999 = a value that is none of the tokens handed out.
func tokOf(v any) int {
	if v == nil {
		return 0
	}
	valMu.Lock()
	defer valMu.Unlock()
	rv := reflect.ValueOf(v)
	for n, w := range valTab {
		rw := reflect.ValueOf(w)
		if rv.Type() != rw.Type() {
			continue
		}
		switch rv.Kind() {
		case reflect.Ptr, reflect.Map, reflect.Slice, reflect.Chan:
			if rv.Pointer() == rw.Pointer() {
				return n
			}
		default:
			if v == w {
				return n
			}
		}
	}
	return 9999
}

// ---- errors ----

// userErr: a custom error type that itself wraps an inner error (so that code which unwraps "to the cause"
// loses it for errors.As)
type userErr struct {
	n     int
	inner error
}

func (e *userErr) Error() string { return fmt.Sprintf("user error %d", e.n) }
func (e *userErr) Unwrap() error { return e.inner }

var (
	errMu     sync.Mutex
	sentinels = map[int]error{}
	issued    = map[int]error{} // the exact error VALUE a callback returns for `!n`
)

func sentinelLocked(n int) error {
	if e, ok := sentinels[n]; ok {
		return e
	}
	msg := "sentinel " + strconv.Itoa(n)
	if n%7 == 0 {
		// a LONG error text (a few kilobytes, as errors carrying a request dump or a stack have): the value is matched by
		// identity, whatever its text
		msg += strings.Repeat(" | detail: the quick brown fox jumps over the lazy dog", 60)
	}
	e := errors.New(msg)
	sentinels[n] = e
	return e
}

// userError is what a scripted callback returns for `!n`: a plain sentinel, a %w-wrapped sentinel, or a
// custom-typed error that wraps an inner error, depending on n%3 (property C04 names all three). The same
// value is returned every time (scenarios run in parallel: creation is under the lock), so the harness can
// ask errors.Is for that very value.
// listErr: a slice-typed error (value receiver), hence not comparable
type listErr []int

func (l listErr) Error() string { return fmt.Sprintf("list error %v", []int(l)) }

// nilPtrErr / zeroCodeErr: error VALUES that are "empty" without being nil errors — a nil pointer of an error type
// (`var e *MyErr; return e`: the classic typed-nil error, non-nil as an `error`) and the zero value of a scalar error
// type (`type Code int`, Code(0)). A callback that returns one of them has FAILED like with any other non-nil error.
// All nil *nilPtrErr are one value and all zeroCodeErr(0) are one value, so each is issued for exactly one number.
type nilPtrErr struct{ msg string }

func (e *nilPtrErr) Error() string { return "typed-nil error" }

type zeroCodeErr int

func (c zeroCodeErr) Error() string { return "code " + strconv.Itoa(int(c)) }

const (
	nilPtrErrN   = 15
	zeroCodeErrN = 18
	// the library's OWN aggregate error type returned by a user callback as its error: the empty aggregate, a nil pointer of it
	// and an aggregate of exactly one error are failures like any other, and keep their identity
	emptyBatchErrN  = 21
	nilBatchErrN    = 24
	singleBatchErrN = 27
)

// permErr: an error that declares itself permanent (`Temporary() == false`, `Timeout() == false`), as *net.OpError,
// *net.DNSError, *url.Error or a syscall.Errno do: an ordinary failure, retried like any other
type permErr struct{}

func (permErr) Error() string   { return "connection refused" }
func (permErr) Temporary() bool { return false }
func (permErr) Timeout() bool   { return false }

// … and carries a retry-after hint (as an error built from a rate-limited HTTP response does): data of the caller's, nothing the
// retry loop is documented to look at — the configured wait is the wait
func (permErr) RetryAfter() time.Duration { return time.Hour }

func userError(n int) error {
	errMu.Lock()
	defer errMu.Unlock()
	if e, ok := issued[n]; ok {
		return e
	}
	var e error
	if n == nilPtrErrN {
		e = (*nilPtrErr)(nil)
		issued[n] = e
		return e
	}
	if n == zeroCodeErrN {
		e = zeroCodeErr(0)
		issued[n] = e
		return e
	}
	switch n {
	case emptyBatchErrN:
		e = &flyt.BatchError{}
	case nilBatchErrN:
		e = (*flyt.BatchError)(nil)
	case singleBatchErrN:
		e = &flyt.BatchError{Errors: []error{errors.New("the one error of the aggregate")}}
	}
	if e != nil {
		issued[n] = e
		return e
	}
	switch n % 3 {
	case 0:
		e = sentinelLocked(n)
	case 1:
		e = fmt.Errorf("callback context: %w", sentinelLocked(n))
	default:
		// the inner cause is sometimes a context error of the USER's own (an attempt-local timeout): it must be
		// treated like any other user error while the run's own context is alive
		switch n % 4 {
		case 3:
			// an error of a NON-COMPARABLE dynamic type (a slice-based error with a value receiver, like
			// go/scanner.ErrorList or validator-style []FieldError): comparing it with == panics
			e = listErr{n, 7}
		case 0:
			e = &userErr{n: n, inner: context.DeadlineExceeded}
		case 1:
			e = &userErr{n: n, inner: context.Canceled}
		default:
			if n%8 == 6 {
				e = &userErr{n: n, inner: permErr{}}
			} else {
				e = &userErr{n: n, inner: errors.New("inner cause")}
			}
		}
	}
	issued[n] = e
	return e
}

// errStr reduces an error to its root as errors.Is / errors.As see it: `u<n>` only if the error matches
// the exact value the callback returned (errors.Is on that value, errors.As for the custom type).
func errStr(err error) string {
	if err == nil {
		return "fo"
	}
	var ue *userErr
	if errors.As(err, &ue) {
		return "u" + strconv.Itoa(ue.n)
	}
	var le listErr
	if errors.As(err, &le) && len(le) > 0 {
		return "u" + strconv.Itoa(le[0])
	}
	errMu.Lock()
	for n, e := range issued {
		if n%3 != 2 && errors.Is(err, e) {
			errMu.Unlock()
			return "u" + strconv.Itoa(n)
		}
	}
	errMu.Unlock()
	if errors.Is(err, context.Canceled) {
		return "cc"
	}
	if errors.Is(err, context.DeadlineExceeded) {
		return "cd"
	}
	msg := err.Error()
	switch {
	case strings.Contains(msg, "batch stopped due to error"):
		return "fs"
	case strings.Contains(msg, "no start node"):
		return "fn"
	case strings.Contains(msg, "context cancelled"):
		return "fc"
	}
	return "fo"
}

func errOfStr(s string) error {
	switch {
	case strings.HasPrefix(s, "u"):
		n, _ := strconv.Atoi(s[1:])
		return userError(n)
	case s == "cc":
		return context.Canceled
	case s == "cd":
		return context.DeadlineExceeded
	}
	return errors.New("fw:" + s)
}

// ---- Val codec ----

// encVal: Go value -> VAL text
func encVal(v any) string {
	if r, ok := v.(flyt.Result); ok {
		if r.IsError() {
			return "x" + errStr(r.Error())
		}
		return "r" + encVal(r.Value())
	}
	return "t" + strconv.Itoa(tokOf(v))
}

func encVals(l []flyt.Result) string {
	if len(l) == 0 {
		return "-"
	}
	parts := make([]string, len(l))
	for i, r := range l {
		parts[i] = encVal(r)
	}
	return strings.Join(parts, ",")
}

// decVal: VAL text -> Go value (a flyt.Result for r…/x…)
func decVal(s string) (any, string) {
	if s == "" {
		panic("decVal: empty")
	}
	switch s[0] {
	case 't':
		i := 1
		for i < len(s) && s[i] >= '0' && s[i] <= '9' {
			i++
		}
		n, _ := strconv.Atoi(s[1:i])
		return goVal(n), s[i:]
	case 'r':
		v, rest := decVal(s[1:])
		return flyt.NewResult(v), rest
	case 'x':
		e, rest := decErrPrefix(s[1:])
		return flyt.NewErrorResult(e), rest
	}
	panic("decVal: bad value " + s)
}

func decErrPrefix(s string) (error, string) {
	if strings.HasPrefix(s, "u") {
		i := 1
		for i < len(s) && s[i] >= '0' && s[i] <= '9' {
			i++
		}
		return errOfStr(s[:i]), s[i:]
	}
	return errOfStr(s[:2]), s[2:]
}

func mustVal(s string) any {
	v, rest := decVal(s)
	if rest != "" {
		panic("trailing input in value " + s)
	}
	return v
}

// scripted outcome of a callback
type outcome struct {
	ok      bool
	val     any    // value (ok) or junk value returned next to the error
	act     string // for post
	errN    int
	cancels bool
	hasJunk bool
}

func parseOutVal(s string) outcome {
	var o outcome
	if strings.HasSuffix(s, "*") {
		o.cancels = true
		s = s[:len(s)-1]
	}
	if strings.HasPrefix(s, "!") {
		body := s[1:]
		if i := strings.Index(body, "+"); i >= 0 {
			o.hasJunk = true
			o.val = mustVal(body[i+1:])
			body = body[:i]
		}
		o.errN, _ = strconv.Atoi(body)
		return o
	}
	o.ok = true
	o.val = mustVal(s)
	return o
}

func parseOutAct(s string) outcome {
	var o outcome
	if strings.HasSuffix(s, "*") {
		o.cancels = true
		s = s[:len(s)-1]
	}
	if strings.HasPrefix(s, "!") {
		body := s[1:]
		if i := strings.Index(body, "+="); i >= 0 {
			o.hasJunk = true
			o.act = body[i+2:]
			body = body[:i]
		}
		o.errN, _ = strconv.Atoi(body)
		return o
	}
	o.ok = true
	o.act = s[1:]
	return o
}

// asResult turns a scripted value into the Result a Result-style function returns.
func asResult(v any) flyt.Result {
	if r, ok := v.(flyt.Result); ok {
		return r
	}
	return flyt.NewResult(v)
}
