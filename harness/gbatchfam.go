package main

// Family "gbatch": a concurrent batch run under full gating. Every exec call of every item parks on a
// gate owned by the harness; a schedule is a list of decisions (release item i | cancel the context).
// After each decision the harness waits for QUIESCENCE — detected from a goroutine dump: every goroutine
// with a flyt frame is blocked on a channel / select / WaitGroup, twice in a row — so no timing
// assumption is involved (DESIGN.md 3.1).

import (
	"bytes"
	"fmt"
	"regexp"
	"runtime"
	"sort"
	"strconv"
	"strings"
	"sync"
	"sync/atomic"
	"time"

	"github.com/mark3labs/flyt"
)

type GItem struct {
	Exec []string `json:"exec"`
	Fb   string   `json:"fb"`
}

type GBatchSc struct {
	N         int      `json:"n"`
	Conc      int      `json:"conc"`
	Stop      bool     `json:"stop"`
	Budget    int      `json:"budget"`
	Fb        string   `json:"fb"`
	ExecS     string   `json:"execS"`
	Kind      string   `json:"kind"`
	Prep      string   `json:"prep"`
	Items     []GItem  `json:"items"`
	Decisions []string `json:"decisions"`
	// Pre > 0: before the gated run, the SAME node object is run once, ungated, with batch concurrency Pre; then the
	// concurrency is set to Conc (last setting wins, also across runs: no state may be carried over)
	Pre int `json:"pre,omitempty"`
	// Procs > 0: run with GOMAXPROCS(Procs) (the limit must be usable also when it exceeds the number of CPUs)
	Procs int `json:"procs,omitempty"`
	// harness-only hints (ignored by the Lean side): how the node is built, how the exec function is installed, and —
	// for Pre > 0 — with which budget / error mode the warm-up run is made and through which kind of setter the real
	// configuration is then written ("builder" methods or option functions applied to the node's BaseNode)
	Build     string `json:"build,omitempty"`
	ExecVia   string `json:"execVia,omitempty"`
	PreBudget int    `json:"preBudget,omitempty"`
	PreStop   bool   `json:"preStop,omitempty"`
	PreVia    string `json:"preVia,omitempty"`
	// PrepConf: the node is built with decoy batch settings and its prep callback gives it the real ones
	PrepConf bool `json:"prepConf,omitempty"`
	// WaitMs > 0: the node has a retry wait (harness-only: the gated observation has no wait events; the wait only moves a
	// retried attempt in time, it must not move it off the worker that owns the item)
	WaitMs int `json:"waitMs,omitempty"`
}

type GBatchObs struct {
	Phases [][][2]int `json:"phases"`
	Items  string     `json:"items"`
	Slots  string     `json:"slots"`
	Posts  int        `json:"posts"`
	Out    string     `json:"out"`
}

var goroutineHdr = regexp.MustCompile(`(?m)^goroutine (\d+) \[([^\],]+)`)

// quiescent: every goroutine of THIS run — the goroutine that called flyt.Run (id `runner`) and the
// goroutines it created (the pool's workers: "created by … in goroutine <runner>") — is blocked in a state
// only the harness can resolve. Goroutines of earlier runs in this process never count.
func quiescent(buf []byte, runner int) bool { return quiescentOf(buf, runner, -1) }

// quiescentOf considers goroutine `runner` (which must exist, if >= 0), the goroutines created by it, and
// the goroutines created by `owner` (if >= 0).
func quiescentOf(buf []byte, runner, owner int) bool {
	n := runtime.Stack(buf, true)
	seenRunner := runner < 0
	rid := []byte(strconv.Itoa(runner))
	created := []byte(" in goroutine " + strconv.Itoa(runner) + "\n")
	createdO := []byte(" in goroutine " + strconv.Itoa(owner) + "\n")
	for _, g := range bytes.Split(append(buf[:n:n], '\n'), []byte("\n\n")) {
		m := goroutineHdr.FindSubmatch(g)
		if m == nil {
			continue
		}
		isRunner := runner >= 0 && bytes.Equal(m[1], rid)
		gn := append(g, '\n')
		if !isRunner && !(runner >= 0 && bytes.Contains(gn, created)) && !(owner >= 0 && bytes.Contains(gn, createdO)) {
			continue
		}
		if isRunner {
			seenRunner = true
		}
		// a state counts as "blocked until the harness acts" only at the one site where that is true; e.g.
		// [semacquire] is also what a goroutine shows while it waits for the runtime's world semaphore (held
		// by this very dump, or by a GC start), which is transient
		has := func(sub string) bool { return bytes.Contains(g, []byte(sub)) }
		switch string(m[2]) {
		case "chan receive":
			if !has("(*gateCtl).gate(") && !has("(*poolCtl).gate(") {
				return false
			}
		case "chan send":
			if !has("flyt.(*WorkerPool).Submit(") {
				return false
			}
		case "semacquire", "sync.WaitGroup.Wait":
			if !has("sync.(*WaitGroup).Wait(") {
				return false
			}
		case "select":
			// an idle worker is fine; a task sleeping in the retry wait is not a stable state
			if has("runExecWithRetries") || isRunner || !has("flyt.(*WorkerPool).worker(") {
				return false
			}
		default:
			return false
		}
	}
	if seenRunner && dumpLog != nil {
		*dumpLog = append(*dumpLog, string(buf[:n]))
	}
	return seenRunner
}

var dumpLog *[]string

// goid returns the id of the calling goroutine
func goid() int {
	var b [64]byte
	n := runtime.Stack(b[:], false)
	m := goroutineHdr.FindSubmatch(b[:n])
	if m == nil {
		return -1
	}
	id, _ := strconv.Atoi(string(m[1]))
	return id
}

type gateCtl struct {
	mu      sync.Mutex
	parked  map[[2]int]chan struct{}
	started [][2]int
}

func (g *gateCtl) gate(i, k int) {
	ch := make(chan struct{})
	g.mu.Lock()
	g.parked[[2]int{i, k}] = ch
	g.started = append(g.started, [2]int{i, k})
	g.mu.Unlock()
	<-ch
}

// chooser picks the next decision given the parked exec calls (sorted) and whether cancel is still possible;
// returns "" to stop deciding (only legal when nothing is parked).
type chooser func(step int, parked [][2]int, cancelled bool) string

// hangCount: scenarios of this process whose run never reached quiescence / never returned. After a few of
// them the rest of the family is skipped (reported as hangs without being run), so that a change which makes
// flyt hang costs seconds, not hours.
var hangCount int

const maxHangs = 3

func execGBatch(sc *GBatchSc, choose chooser) (GBatchObs, []string) {
	if hangCount >= maxHangs || atomic.LoadInt32(&flowHangs) >= 3 {
		return GBatchObs{Phases: [][][2]int{}, Items: "-", Slots: "-", Out: "H"}, []string{"bad:skipped-after-hangs"}
	}
	cfg := BatchCfg{Budget: sc.Budget, Fb: sc.Fb, Conc: sc.Conc, Stop: sc.Stop, ExecS: sc.ExecS, HasPost: true,
		Shape: "results", Build: "builder", ExecVia: sc.ExecVia, Wait: sc.WaitMs, PrepConf: sc.PrepConf}
	if sc.Build == "option" {
		cfg.Build = "option"
	}
	bs := BatchScript{N: 0, V: 0, Prep: sc.Prep, Post: "="}
	for _, it := range sc.Items {
		bs.Items = append(bs.Items, ItemScript{Exec: it.Exec, Fb: it.Fb, WaitCancel: []int{}})
	}
	fs := &FlowScenario{Kind: sc.Kind, Ctx0: "live", Nodes: []NodeDef{{ID: 0, Batch: &cfg}},
		LeafScripts: []LeafScript{}, BatchScripts: []BatchScript{bs}}
	e := &runtimeEnv{sc: fs, leafScr: map[[2]int]*LeafScript{}, batchScr: map[[2]int]*BatchScript{{0, 0}: &fs.BatchScripts[0]},
		nodes: map[int]flyt.Node{}, rts: map[int]*nodeRT{}, valueNodes: map[int]*leafImpl{}}
	rt := &nodeRT{env: e, id: 0, visit: -1}
	g := &gateCtl{parked: map[[2]int]chan struct{}{}}
	b := &batchImpl{rt0: rt, cfg: &cfg, gate: g.gate}
	node := e.buildBatchWith(b)
	e.nodes[0] = node
	if sc.Procs > 0 {
		defer runtime.GOMAXPROCS(runtime.GOMAXPROCS(sc.Procs))
	}
	if sc.Pre > 0 {
		// warm-up run on the same node: every exec returns at once (gate off); its trace and outcome are discarded
		gateOn := false
		real := b.gate
		b.gate = func(i, k int) {
			if gateOn {
				real(i, k)
			}
		}
		node.WithBatchConcurrency(sc.Pre)
		if sc.PreBudget > 0 {
			node.WithMaxRetries(sc.PreBudget)
		}
		if sc.PreVia != "" {
			node.WithBatchErrorHandling(!sc.PreStop)
		}
		if pre := e.runOnce(0); pre.Out == "H" {
			// the ungated warm-up run itself never returned: the gated run on the same node cannot be set up
			hangCount++
			return GBatchObs{Phases: [][][2]int{}, Items: "-", Slots: "-", Out: "H"}, []string{"bad:warm-up-run-hung"}
		}
		if sc.PreVia == "option" {
			// the same settings written through the option functions, applied to the node's BaseNode
			flyt.WithBatchConcurrency(sc.Conc)(node.BaseNode)
			flyt.WithMaxRetries(sc.Budget)(node.BaseNode)
			flyt.WithBatchErrorHandling(!sc.Stop)(node.BaseNode)
		} else {
			node.WithBatchConcurrency(sc.Conc)
			node.WithMaxRetries(sc.Budget)
			node.WithBatchErrorHandling(!sc.Stop)
		}
		// fresh per-run bookkeeping for the gated run
		rt.mu.Lock()
		rt.battempts = map[[2]int]int{}
		rt.visit = -1
		rt.mu.Unlock()
		gateOn = true
	}

	done := make(chan RunObs, 1)
	ridCh := make(chan int, 1)
	e.onRunner = func() { ridCh <- goid() }
	go func() { done <- e.runOnce(0) }()
	var runner int
	select {
	case runner = <-ridCh:
	case <-time.After(10 * time.Second): // the run was never started (the flow executor gave up after earlier hangs)
		hangCount++
		return GBatchObs{Phases: [][][2]int{}, Items: "-", Slots: "-", Out: "H"}, []string{"bad:run-not-started"}
	}

	buf := make([]byte, 1<<20)
	var phases [][][2]int
	var decisions []string
	seen := 0
	var final RunObs
	finished := false
	waitQ := func() bool { // true = quiescent, false = run finished
		deadline := time.Now().Add(6 * time.Second)
		stable := 0
		for time.Now().Before(deadline) {
			select {
			case final = <-done:
				finished = true
				return false
			default:
			}
			if quiescent(buf, runner) {
				stable++
				if stable >= 2 {
					return true
				}
			} else {
				stable = 0
			}
			runtime.Gosched()
		}
		finished = true
		final = RunObs{Out: "H"}
		return false
	}
	snapshot := func() [][2]int {
		g.mu.Lock()
		ph := append([][2]int{}, g.started[seen:]...)
		seen = len(g.started)
		g.mu.Unlock()
		sort.Slice(ph, func(a, b int) bool { return ph[a][0] < ph[b][0] || (ph[a][0] == ph[b][0] && ph[a][1] < ph[b][1]) })
		return ph
	}
	cancelled := false
	for step := 0; ; step++ {
		q := waitQ()
		phases = append(phases, snapshot())
		if !q {
			break
		}
		g.mu.Lock()
		var parked [][2]int
		for p := range g.parked {
			parked = append(parked, p)
		}
		g.mu.Unlock()
		sort.Slice(parked, func(a, b int) bool { return parked[a][0] < parked[b][0] })
		d := choose(step, parked, cancelled)
		if d == "" {
			if len(parked) == 0 {
				// quiescent with nothing parked and no decision: the run must be finishing; wait for it
				select {
				case final = <-done:
				case <-time.After(6 * time.Second):
					final = RunObs{Out: "H"}
				}
				finished = true
				break
			}
			d = "r" + strconv.Itoa(parked[0][0])
		}
		decisions = append(decisions, d)
		if d == "c" {
			cancelled = true
			e.cancelNow()
			// a cancel wakes nobody that is parked in a gate, but give the runtime a chance to settle
			continue
		}
		i, _ := strconv.Atoi(d[1:])
		g.mu.Lock()
		var key [2]int
		found := false
		for p := range g.parked {
			if p[0] == i {
				key, found = p, true
			}
		}
		var ch chan struct{}
		if found {
			ch = g.parked[key]
			delete(g.parked, key)
		}
		g.mu.Unlock()
		if !found {
			decisions[len(decisions)-1] = "bad:" + d
			break
		}
		close(ch)
	}
	// release everything that is still parked so no goroutine outlives the scenario
	g.mu.Lock()
	for p, ch := range g.parked {
		close(ch)
		delete(g.parked, p)
	}
	g.mu.Unlock()
	if !finished {
		select {
		case final = <-done:
		case <-time.After(5 * time.Second):
			final = RunObs{Out: "H"}
		}
	}
	if final.Out == "H" {
		hangCount++
	}
	obs := GBatchObs{Phases: phases, Out: final.Out, Items: "-", Slots: "-"}
	for _, ev := range final.Trace {
		if strings.HasPrefix(ev, "bo:") {
			f := strings.Split(ev, ":")
			obs.Posts++
			obs.Items, obs.Slots = f[4], f[5]
		}
	}
	for i := range obs.Phases {
		if obs.Phases[i] == nil {
			obs.Phases[i] = [][2]int{}
		}
	}
	return obs, decisions
}

// fixedChooser replays a recorded decision list
func fixedChooser(ds []string) chooser {
	return func(step int, parked [][2]int, cancelled bool) string {
		if step < len(ds) {
			return ds[step]
		}
		return ""
	}
}

func (j *jobList) addGBatch(sc GBatchSc, ch func() chooser) {
	s := sc
	holder := &s
	j.jobs = append(j.jobs, job{fam: "gbatch", sc: holder, run: func() any {
		var c chooser
		if ch != nil {
			c = ch()
		} else {
			c = fixedChooser(append([]string{}, holder.Decisions...))
		}
		obs, ds := execGBatch(holder, c)
		holder.Decisions = ds
		if holder.Decisions == nil {
			holder.Decisions = []string{}
		}
		return obs
	}})
}

// ---- generators ----

func gItems(t *tokGen, n, budget int, failMask uint64, failAll bool, fbOK func(i int) bool, execS string) (string, []GItem) {
	var prep []string
	var items []GItem
	for i := 0; i < n; i++ {
		prep = append(prep, "r"+t.tok())
		it := GItem{}
		fails := failMask&(1<<uint(i)) != 0
		for k := 0; k <= budget; k++ {
			switch {
			case fails && failAll:
				it.Exec = append(it.Exec, "!"+strconv.Itoa(t.err()))
			case fails && k == 0 && budget > 1:
				it.Exec = append(it.Exec, "!"+strconv.Itoa(t.err())) // fails once, then succeeds
			case fails && budget == 1:
				it.Exec = append(it.Exec, "!"+strconv.Itoa(t.err()))
			default:
				if execS == "res" && t.r.chance(7) {
					// the exec function returns an error Result with a nil error: a value, not a failure —
					// it fills the slot but must not raise the stop flag
					it.Exec = append(it.Exec, "xu"+strconv.Itoa(t.err()))
				} else if t.r.chance(6) {
					it.Exec = append(it.Exec, "t0") // the exec function returns a nil payload: a success like any other
				} else {
					it.Exec = append(it.Exec, t.tok())
				}
			}
		}
		if fbOK(i) {
			it.Fb = t.tok()
		} else {
			it.Fb = "!" + strconv.Itoa(t.err())
		}
		items = append(items, it)
	}
	return strings.Join(prep, ","), items
}

// dfsPaths enumerates every release order of one scenario: it re-runs the scenario with a growing prefix of
// choice indices (stateless depth-first search).
func dfsPaths(base GBatchSc, limit int, withCancelAt int, emit func(GBatchSc)) int {
	prefix := []int{}
	count := 0
	for {
		var widths []int
		step0 := 0
		ch := func(step int, parked [][2]int, cancelled bool) string {
			if withCancelAt >= 0 && step == withCancelAt && !cancelled {
				return "c"
			}
			if len(parked) == 0 {
				return ""
			}
			idx := step0
			step0++
			w := len(parked)
			widths = append(widths, w)
			c := 0
			if idx < len(prefix) {
				c = prefix[idx]
			}
			if c >= w {
				c = w - 1
			}
			return "r" + strconv.Itoa(parked[c][0])
		}
		sc := base
		obs, ds := execGBatch(&sc, ch)
		_ = obs
		sc.Decisions = ds
		emit(sc)
		count++
		if limit > 0 && count >= limit {
			return count
		}
		// next prefix
		cur := make([]int, len(widths))
		copy(cur, prefix)
		for len(cur) < len(widths) {
			cur = append(cur, 0)
		}
		i := len(widths) - 1
		for i >= 0 && cur[i]+1 >= widths[i] {
			i--
		}
		if i < 0 {
			return count
		}
		cur[i]++
		prefix = cur[:i+1]
	}
}

func genGBatch(r *rng, thorough bool, shard, shards int, jl *jobList) {
	t := &tokGen{r: r}
	emitFixed := func(sc GBatchSc) { jl.addGBatch(sc, nil) }
	idx := 0
	mine := func() bool { idx++; return (idx-1)%shards == shard }
	// 1. exhaustive release orders for small cells (the enumeration itself runs the scenario; the recorded
	//    decision lists are then re-run by the job and judged by the driver)
	maxN, maxC := 5, 3
	if thorough {
		maxN, maxC = 7, 4
	}
	for n := 1; n <= maxN; n++ {
		for c := 1; c <= maxC; c++ {
			for _, stop := range []bool{false, true} {
				for _, budget := range []int{1, 2} {
					if budget == 2 && n > 4 {
						continue
					}
					// failing item position: none, or each single position (first failing item)
					for f := -1; f < n; f++ {
						if !mine() {
							continue
						}
						var mask uint64
						if f >= 0 {
							mask = 1 << uint(f)
						}
						t.next, t.errN = r.intn(30), r.intn(20)
						prep, items := gItems(t, n, budget, mask, r.chance(50), func(i int) bool { return false }, "res")
						base := GBatchSc{N: n, Conc: c, Stop: stop, Budget: budget, Fb: "pass", ExecS: "res", Kind: "canceled", Prep: prep, Items: items}
						limit := 400
						if thorough {
							limit = 3000
						}
						dfsPaths(base, limit, -1, emitFixed)
					}
				}
			}
		}
	}
	// 2. random scripts, random schedules, cancellation at a random point
	m := 600
	if thorough {
		m = 6000
	}
	for it := 0; it < m; it++ {
		if !mine() {
			r.next()
			continue
		}
		n := 1 + r.intn(16)
		c := 1 + r.intn(4)
		if r.chance(10) {
			c = 5 + r.intn(12)
			n = 1 + r.intn(4*c+8)
			if n > 40 {
				n = 40
			}
		}
		budget := 1 + r.intn(3)
		mask := r.next() & r.next()
		t.next, t.errN = r.intn(30), r.intn(20)
		fbk := r.pick([]string{"pass", "pass", "custom"})
		rr := newRng(r.next())
		es := r.pick([]string{"res", "res", "any"})
		prep, items := gItems(t, n, budget, mask, r.chance(50), func(i int) bool { return rr.chance(50) }, es)
		base := GBatchSc{N: n, Conc: c, Stop: r.chance(50), Budget: budget, Fb: fbk, ExecS: es, Kind: r.pick([]string{"canceled", "deadline", "cause", "fardeadline", "child"}), Prep: prep, Items: items,
			Build: r.pick([]string{"builder", "option"}), ExecVia: r.pick([]string{"", "", "copt", "cbuilder"})}
		if budget >= 2 && r.chance(30) {
			base.WaitMs = 1 + r.intn(2)
		}
		if it%5 == 4 || it%5 == 0 && it%2 == 0 {
			base.PrepConf = true
		}
		switch it % 5 {
		case 1, 3: // the node has been run before with a different concurrency (and budget / error mode), then re-configured
			base.Pre = 1 + r.intn(6)
			if it%5 == 3 {
				base.PreBudget = 1 + r.intn(3)
				base.PreStop = r.chance(50)
				base.PreVia = r.pick([]string{"builder", "option"})
			}
		case 2: // fewer CPUs than workers
			base.Procs = 1 + r.intn(2)
		}
		cancelAt := -1
		if r.chance(50) {
			cancelAt = r.intn(n + 2)
		}
		sr := newRng(r.next())
		mk := func() chooser {
			return func(step int, parked [][2]int, cancelled bool) string {
				if cancelAt >= 0 && step == cancelAt && !cancelled {
					return "c"
				}
				if len(parked) == 0 {
					return ""
				}
				return "r" + strconv.Itoa(parked[sr.intn(len(parked))][0])
			}
		}
		jl.addGBatch(base, mk)
	}
}

var _ = fmt.Sprint
