package main

// Executor for family "flow": builds real flyt nodes / flows / batch nodes from a scenario,
// runs them, and records what the instrumented user callbacks observed.

import (
	"context"
	"errors"
	"fmt"
	"sort"
	"strconv"
	"strings"
	"sync"
	"sync/atomic"
	"time"

	"github.com/mark3labs/flyt"
)

func waitDur(ms, us int) time.Duration {
	return time.Duration(ms)*time.Millisecond + time.Duration(us)*time.Microsecond
}

// ---- scenario (JSON shapes shared with lean/Driver/FlowFam.lean) ----

type LeafCfg struct {
	Retryable bool `json:"retryable"`
	Budget    int  `json:"budget"`
	Wait      int  `json:"wait"` // ms
	// WaitUs (harness only; the model's wait is Wait ms): microseconds added to the configured wait. The observed gap is
	// judged against the full duration, so a wait that loses its sub-millisecond part on the way shows as a missing wait event.
	WaitUs int    `json:"waitUs,omitempty"`
	Fb     string `json:"fb"` // absent | pass | custom
	PrepS  string `json:"prepS"`
	ExecS  string `json:"execS"`
	PostS  string `json:"postS"`
	// harness-only hints (ignored by the Lean side)
	Impl string `json:"impl,omitempty"` // for direct nodes with fb=custom & retryable: "base" | "plain"
	// Of (harness only, with Impl "inner"): this node IS the *CustomNode wrapped by the NodeBuilder that is node `Of` — a Node in
	// its own right (an exported field), a different node from the builder as far as a flow's table goes. Generated only where it
	// is connected but never reached.
	Of    int    `json:"of,omitempty"`
	Build string `json:"build,omitempty"` // for function-style nodes: "option" | "builder" | "mixed"
}

type BatchCfg struct {
	Budget  int    `json:"budget"`
	Wait    int    `json:"wait"`
	WaitUs  int    `json:"waitUs,omitempty"` // see LeafCfg.WaitUs
	Fb      string `json:"fb"`               // pass | custom
	Conc    int    `json:"conc"`
	Stop    bool   `json:"stop"`
	ExecS   string `json:"execS"` // res | any | absent
	HasPost bool   `json:"hasPost"`
	Shape   string `json:"shape"`           // results | anys | typed | single | nil
	Build   string `json:"build,omitempty"` // option | builder | bare (run the *BatchNode inside the builder)
	// PrepConf (harness only): the node is BUILT with decoy batch settings (another concurrency, the other error mode) and
	// its prep callback gives it the real ones: the settings that count are the ones in force when prep has returned
	PrepConf bool   `json:"prepConf,omitempty"`
	ExecVia  string `json:"execVia,omitempty"` // "" (BatchNodeBuilder setters) | copt | cbuilder (exec installed on the CustomNode)
}

type Conn struct {
	Src    int    `json:"src"`
	Action string `json:"action"`
	Dst    *int   `json:"dst"`
	// Late (harness only; the model's table has the connection from the start): the connection is not made while the flow
	// is built but DURING the run, by the post callback of Src itself, just before it returns the action that will be
	// looked up — a node (re)wiring its own outgoing edge. Only the last connection of a (flow, src, action) triple is
	// ever late, so the table at every lookup is the one the model routes on.
	Late bool `json:"late,omitempty"`
}

type FlowDef struct {
	Start *int   `json:"start"`
	Ops   []Conn `json:"ops"`
}

type NodeDef struct {
	ID    int       `json:"id"`
	Leaf  *LeafCfg  `json:"leaf,omitempty"`
	Flow  *FlowDef  `json:"flow,omitempty"`
	Batch *BatchCfg `json:"batch,omitempty"`
}

type LeafScript struct {
	N          int      `json:"n"`
	V          int      `json:"v"`
	Prep       string   `json:"prep"`
	Exec       []string `json:"exec"`
	WaitCancel []int    `json:"waitCancel"`
	Fb         string   `json:"fb"`
	Post       string   `json:"post"`
}

type ItemScript struct {
	Exec       []string `json:"exec"`
	WaitCancel []int    `json:"waitCancel"`
	Fb         string   `json:"fb"`
}

type BatchScript struct {
	N     int          `json:"n"`
	V     int          `json:"v"`
	Prep  string       `json:"prep"`
	Items []ItemScript `json:"items"`
	Post  string       `json:"post"`
}

type ConnectStep struct {
	Flow   int    `json:"flow"`
	Src    int    `json:"src"`
	Action string `json:"action"`
	Dst    *int   `json:"dst"`
}

type Step struct {
	Run     *int         `json:"run,omitempty"`
	Connect *ConnectStep `json:"connect,omitempty"`
	// Via "flow": run a flow root through its convenience method flow.Run(ctx, store) instead of flyt.Run;
	// the action is then not observable (reported as "*")
	Via string `json:"via,omitempty"`
}

type FlowScenario struct {
	Kind         string        `json:"kind"` // canceled | deadline
	Ctx0         string        `json:"ctx0"` // live | done
	Nodes        []NodeDef     `json:"nodes"`
	LeafScripts  []LeafScript  `json:"leafScripts"`
	BatchScripts []BatchScript `json:"batchScripts"`
	Steps        []Step        `json:"steps"`
	// Pairs [i, j]: runs i and j are runs of two nodes configured alike through different construction styles (C19)
	Pairs [][]int `json:"pairs,omitempty"`
	// NodeDefaults: the script of every visit of node N that has no script of its own (V is ignored); Longest: an upper
	// bound on the number of node visits of a run (the model's fuel) — for long paths written with a handful of scripts
	NodeDefaults []LeafScript `json:"nodeDefaults,omitempty"`
	Longest      int          `json:"longest,omitempty"`
	// RBudget (family "rflow"): the retry budget given to the ROOT flow of the (only) run through its embedded BaseNode,
	// `flyt.WithMaxRetries(n)(flow.BaseNode)`, before the run
	RBudget *int `json:"rbudget,omitempty"`
}

type RunObs struct {
	Trace []string `json:"trace"`
	Out   string   `json:"out"`
	Store []int    `json:"store"`
}

type FlowObs struct {
	Runs []RunObs `json:"runs"`
}

// ---- a context that can report either error kind ----

type testCtx struct {
	mu   sync.Mutex
	done chan struct{}
	err  error
	kind string
}

func newTestCtx(kind string) *testCtx { return &testCtx{done: make(chan struct{}), kind: kind} }

func (c *testCtx) Deadline() (time.Time, bool) { return time.Time{}, false }
func (c *testCtx) Done() <-chan struct{}       { return c.done }
func (c *testCtx) Value(any) any               { return nil }
func (c *testCtx) Err() error {
	c.mu.Lock()
	defer c.mu.Unlock()
	return c.err
}
func (c *testCtx) cancel() {
	c.mu.Lock()
	defer c.mu.Unlock()
	if c.err != nil {
		return
	}
	if c.kind == "deadline" {
		c.err = context.DeadlineExceeded
	} else {
		c.err = context.Canceled
	}
	close(c.done)
}

// ---- run-time state ----

type runtimeEnv struct {
	sc       *FlowScenario
	leafScr  map[[2]int]*LeafScript
	batchScr map[[2]int]*BatchScript
	nodes    map[int]flyt.Node
	rts      map[int]*nodeRT
	// connectAs: for a node configured through chained builder setters, the builder the chain STARTED from (the node itself is
	// what the last setter returned): the same node, and the one a flow's connections are made from
	connectAs map[int]flyt.Node

	mu       sync.Mutex
	trace    []string
	ctx      *testCtx
	realCtx  context.Context
	realStop context.CancelFunc
	runStore *flyt.SharedStore
	stores   []*flyt.SharedStore
	onRunner func() // called on the goroutine that is about to call flyt.Run
	// optional hooks bracketing every leaf exec callback (attempt k): the wait family measures real time with them,
	// on the node objects themselves (no wrapper type around the node: the framework must see the user's own type)
	leafExecEnter, leafExecLeave func(k int)
	valueNodes                   map[int]*leafImpl // leaves implemented by value-type nodes
	seenCtx                      []context.Context
	// panic family: the callback named here ("p", "e<k>", "f", "o") panics with panicVal right after it was recorded
	panicAt        string
	panicVal       any
	late           map[int][]lateConn // connections made during the run by the post callback of their source node
	emptyNodeImpls [2]*leafImpl
	nilNodeImpl    *leafImpl // the leaf implemented by the nil-pointer node, if any
}

func (e *runtimeEnv) maybePanic(at string) {
	if e.panicAt != "" && e.panicAt == at {
		panic(e.panicVal)
	}
}

func (e *runtimeEnv) record(s string) {
	e.mu.Lock()
	e.trace = append(e.trace, s)
	e.mu.Unlock()
}

func (e *runtimeEnv) sid(s *flyt.SharedStore) int {
	if s == e.runStore {
		return 0
	}
	e.mu.Lock()
	defer e.mu.Unlock()
	for i, x := range e.stores {
		if x == s {
			return i + 1
		}
	}
	e.stores = append(e.stores, s)
	return len(e.stores)
}

// seeCtx: every callback is handed a context; a context handed to ANY callback of this run must stay usable for as
// long as the run's own context is alive (a node may leave a ctx-bound resource in the store for a later node). A
// context found dead while the run's context is alive is recorded as an extra trace event, which no model run has.
func (e *runtimeEnv) seeCtx(ctx context.Context, where string) {
	if ctx == nil {
		return
	}
	runDead := e.context().Err() != nil
	e.mu.Lock()
	known := false
	var dead bool
	for _, c := range e.seenCtx {
		if c == ctx {
			known = true
		}
		if !runDead && c.Err() != nil {
			dead = true
		}
	}
	if !known {
		e.seenCtx = append(e.seenCtx, ctx)
		if !runDead && ctx.Err() != nil {
			dead = true
		}
	}
	if dead {
		e.trace = append(e.trace, "p:9999:0:0") // an impossible event: "a context given to a callback died before the run's context"
	}
	e.mu.Unlock()
}

func (e *runtimeEnv) cancelNow() {
	if e.ctx != nil {
		e.ctx.cancel()
	} else {
		e.realStop()
	}
}

func (e *runtimeEnv) context() context.Context {
	if e.ctx != nil {
		return e.ctx
	}
	return e.realCtx
}

// per-node visit tracking: a new visit starts when a callback arrives that is not "later" than the
// previous callback of the current visit (see DESIGN: visits are counted by first callback).
type nodeRT struct {
	env   *runtimeEnv
	id    int
	mu    sync.Mutex
	visit int // current visit number, -1 before the first
	rank  int // rank of the last callback in the visit (prep 0, exec 1, fb 2, post 3)
	att   int
	open  bool
	// batch nodes: per-run bookkeeping (item index by payload identity; attempts so far)
	battempts map[[2]int]int // (visit,item) -> attempts so far
	itemTok   map[int][]int  // visit -> token of each item
	// a cancellation scripted for this visit's prep that is delivered when flyt.Run reads the node's own retry getters
	pendingCancel bool
}

// ---- overlapping runs of the same node objects ----
// A node object holds no per-run state, so two runs of one object may overlap in time (two parents embedding one
// sub-flow, a node shared by two flows run from two goroutines). The harness keeps ITS per-run bookkeeping in a
// runtimeEnv; the callbacks of the shared node objects find the runtimeEnv of the run they are executing for through
// the goroutine they are called on (only sequential node kinds take part, so a run stays on its goroutine).
var (
	overlayOn int32
	overlays  sync.Map // goroutine id -> *runtimeEnv
)

func (e *runtimeEnv) rtOf(id int) *nodeRT {
	e.mu.Lock()
	defer e.mu.Unlock()
	rt, ok := e.rts[id]
	if !ok {
		rt = &nodeRT{env: e, id: id, visit: -1}
		e.rts[id] = rt
	}
	return rt
}

func resolveRT(base *nodeRT) *nodeRT {
	if atomic.LoadInt32(&overlayOn) != 0 {
		if e2, ok := overlays.Load(goid()); ok {
			return e2.(*runtimeEnv).rtOf(base.id)
		}
	}
	return base
}

func (rt *nodeRT) enter(rank int) int {
	rt.mu.Lock()
	defer rt.mu.Unlock()
	switch rank {
	case 0:
		rt.visit++
	default:
		if !rt.open || rt.rank >= rank {
			rt.visit++
		}
	}
	rt.open = rank != 3
	rt.rank, rt.att = rank, 0
	return rt.visit
}

// batch nodes: a visit starts at bprep
func (rt *nodeRT) enterBatchPrep() int {
	rt.mu.Lock()
	defer rt.mu.Unlock()
	rt.visit++
	return rt.visit
}
func (rt *nodeRT) cur() int {
	rt.mu.Lock()
	defer rt.mu.Unlock()
	return rt.visit
}

var defaultLeafScript = LeafScript{Prep: "!999", Fb: "!997", Post: "!996"}

func (e *runtimeEnv) leafScript(n, v int) *LeafScript {
	if s, ok := e.leafScr[[2]int{n, v}]; ok {
		return s
	}
	for i := range e.sc.NodeDefaults {
		if e.sc.NodeDefaults[i].N == n {
			return &e.sc.NodeDefaults[i]
		}
	}
	return &defaultLeafScript
}

func execOutcome(l []string, k int) outcome {
	if k < len(l) {
		return parseOutVal(l[k])
	}
	return parseOutVal("!998")
}

func contains(l []int, k int) bool {
	for _, x := range l {
		if x == k {
			return true
		}
	}
	return false
}

// ---- the callbacks shared by all leaf node kinds ("direct" view: plain any values) ----

type leafImpl struct {
	rt0 *nodeRT // the run-time state of the run the node was built for; see rtx
	cfg *LeafCfg
}

// rtx: the node's run-time state in the run that is calling
func (l *leafImpl) rtx() *nodeRT { return resolveRT(l.rt0) }

func (l *leafImpl) appendVisit(shared *flyt.SharedStore) {
	var log []int
	if v, ok := shared.Get("visits"); ok {
		log = append(log, v.([]int)...)
	}
	shared.Set("visits", append(log, l.rt0.id))
}

func (l *leafImpl) prep(shared *flyt.SharedStore) (any, error) {
	rt := l.rtx()
	e := rt.env
	v := rt.enter(0)
	e.record(fmt.Sprintf("p:%d:%d:%d", rt.id, v, e.sid(shared)))
	l.appendVisit(shared)
	e.maybePanic("p")
	o := parseOutVal(e.leafScript(rt.id, v).Prep)
	if o.cancels {
		ownGetters := l.cfg.Retryable && l.cfg.PrepS == "direct" && l.cfg.ExecS == "direct" && l.cfg.PostS == "direct" &&
			(l.cfg.Fb == "absent" || (l.cfg.Fb == "custom" && l.cfg.Impl == "plain"))
		if o.ok && ownGetters && (rt.id+v)%2 == 0 {
			// a node kind with its own getters (plainRetry / plainRetryFb): cancel when flyt.Run reads the retry settings
			rt.mu.Lock()
			rt.pendingCancel = true
			rt.mu.Unlock()
		} else {
			e.cancelNow()
		}
	}
	if !o.ok {
		return o.val, userError(o.errN)
	}
	return o.val, nil
}

// exec: the attempt number is not passed to the callback, so it is reconstructed: an exec call right
// after prep is attempt 0; an exec call after exec attempt a is attempt a+1 of the same visit when the
// node has a prep callback (a new Run would have gone through prep), otherwise when the script says
// attempt a failed and budget remains; anything else starts a new visit.
func (l *leafImpl) exec(arg any) (any, error) {
	rt := l.rtx()
	e := rt.env
	rt.mu.Lock()
	k := 0
	switch {
	case rt.open && rt.rank == 0:
	case rt.open && rt.rank == 1:
		prev := execOutcome(e.leafScript(rt.id, rt.visit).Exec, rt.att)
		if l.cfg.PrepS != "absent" || (!prev.ok && rt.att+1 < effBudget(l.cfg)) {
			k = rt.att + 1
		} else {
			rt.visit++
		}
	default:
		rt.visit++
	}
	rt.open, rt.rank, rt.att = true, 1, k
	v := rt.visit
	rt.mu.Unlock()
	e.record(fmt.Sprintf("e:%d:%d:%d:%s", rt.id, v, k, encVal(arg)))
	if e.leafExecEnter != nil {
		e.leafExecEnter(k)
		defer e.leafExecLeave(k)
	}
	scr := e.leafScript(rt.id, v)
	e.maybePanic("e" + strconv.Itoa(k))
	o := execOutcome(scr.Exec, k)
	if o.cancels {
		e.cancelNow()
	}
	if contains(scr.WaitCancel, k+1) {
		// an asynchronous cancellation that arrives while Run waits before attempt k+1
		go func() { time.Sleep(30 * time.Millisecond); e.cancelNow() }()
	}
	if !o.ok {
		return o.val, userError(o.errN)
	}
	return o.val, nil
}

func effBudget(c *LeafCfg) int {
	if c.Retryable {
		return c.Budget
	}
	return 1
}

func (l *leafImpl) fallback(arg any, err error) (any, error) {
	rt := l.rtx()
	e := rt.env
	v := rt.enter(2)
	e.record(fmt.Sprintf("f:%d:%d:%s:%s", rt.id, v, encVal(arg), errStr(err)))
	e.maybePanic("f")
	o := parseOutVal(e.leafScript(rt.id, v).Fb)
	if o.cancels {
		e.cancelNow()
	}
	if !o.ok {
		return o.val, userError(o.errN)
	}
	return o.val, nil
}

func (l *leafImpl) post(shared *flyt.SharedStore, pv, ev any) (flyt.Action, error) {
	rt := l.rtx()
	e := rt.env
	v := rt.enter(3)
	e.record(fmt.Sprintf("o:%d:%d:%d:%s:%s", rt.id, v, e.sid(shared), encVal(pv), encVal(ev)))
	e.maybePanic("o")
	o := parseOutAct(e.leafScript(rt.id, v).Post)
	if o.cancels {
		e.cancelNow()
	}
	for _, lc := range e.late[rt.id] {
		e.connect(lc.f, lc.c.Src, lc.c.Action, lc.c.Dst)
	}
	if !o.ok {
		return flyt.Action(o.act), userError(o.errN)
	}
	return flyt.Action(o.act), nil
}

// ---- direct node kinds ----

// plainNode: implements Node only
type plainNode struct{ l *leafImpl }

func (n *plainNode) Prep(ctx context.Context, s *flyt.SharedStore) (any, error) {
	n.l.rtx().env.seeCtx(ctx, "prep")
	if n.l.cfg.PrepS == "absent" {
		return nil, nil
	}
	return n.l.prep(s)
}
func (n *plainNode) Exec(ctx context.Context, p any) (any, error) {
	n.l.rtx().env.seeCtx(ctx, "exec")
	if n.l.cfg.ExecS == "absent" {
		return nil, nil
	}
	return n.l.exec(p)
}
func (n *plainNode) Post(ctx context.Context, s *flyt.SharedStore, p, e any) (flyt.Action, error) {
	n.l.rtx().env.seeCtx(ctx, "post")
	if n.l.cfg.PostS == "absent" {
		return flyt.DefaultAction, nil
	}
	return n.l.post(s, p, e)
}

// plainRetry: Node + RetryableNode
type plainRetry struct{ plainNode }

// the node's OWN getters: flyt.Run reads them between prep and the first exec attempt. A cancellation scripted for a
// successful prep of such a node is, every second time, delivered HERE instead of inside prep (`pendingCancel`): to the run
// it is a cancellation before the first attempt either way.
func (n *plainRetry) GetMaxRetries() int {
	rt := n.l.rtx()
	rt.mu.Lock()
	p := rt.pendingCancel
	rt.pendingCancel = false
	rt.mu.Unlock()
	if p {
		rt.env.cancelNow()
	}
	return n.l.cfg.Budget
}
func (n *plainRetry) GetWait() time.Duration { return waitDur(n.l.cfg.Wait, n.l.cfg.WaitUs) }

// plainFb: Node + FallbackNode
type plainFb struct{ plainNode }

func (n *plainFb) ExecFallback(p any, err error) (any, error) { return n.l.fallback(p, err) }

// plainRetryFb: all three
type plainRetryFb struct{ plainRetry }

func (n *plainRetryFb) ExecFallback(p any, err error) (any, error) { return n.l.fallback(p, err) }

// baseStruct embeds *flyt.BaseNode the documented way; absent phases fall through to BaseNode's methods
type baseStruct struct {
	*flyt.BaseNode
	l *leafImpl
}

func (n *baseStruct) Prep(ctx context.Context, s *flyt.SharedStore) (any, error) {
	n.l.rtx().env.seeCtx(ctx, "prep")
	if n.l.cfg.PrepS == "absent" {
		return n.BaseNode.Prep(ctx, s)
	}
	return n.l.prep(s)
}
func (n *baseStruct) Exec(ctx context.Context, p any) (any, error) {
	n.l.rtx().env.seeCtx(ctx, "exec")
	if n.l.cfg.ExecS == "absent" {
		return n.BaseNode.Exec(ctx, p)
	}
	return n.l.exec(p)
}
func (n *baseStruct) Post(ctx context.Context, s *flyt.SharedStore, p, e any) (flyt.Action, error) {
	n.l.rtx().env.seeCtx(ctx, "post")
	if n.l.cfg.PostS == "absent" {
		return n.BaseNode.Post(ctx, s, p, e)
	}
	return n.l.post(s, p, e)
}

// valBaseStruct embeds flyt.BaseNode BY VALUE (`type MyNode struct{ flyt.BaseNode; … }`, used as &MyNode{}): the zero BaseNode
type valBaseStruct struct {
	flyt.BaseNode
	l *leafImpl
}

func (n *valBaseStruct) Prep(ctx context.Context, s *flyt.SharedStore) (any, error) {
	n.l.rtx().env.seeCtx(ctx, "prep")
	return n.l.prep(s)
}
func (n *valBaseStruct) Exec(ctx context.Context, p any) (any, error) {
	n.l.rtx().env.seeCtx(ctx, "exec")
	return n.l.exec(p)
}
func (n *valBaseStruct) Post(ctx context.Context, s *flyt.SharedStore, p, e any) (flyt.Action, error) {
	n.l.rtx().env.seeCtx(ctx, "post")
	if n.l.cfg.PostS == "absent" {
		return n.BaseNode.Post(ctx, s, p, e)
	}
	return n.l.post(s, p, e)
}

// baseStructFb additionally overrides ExecFallback
type baseStructFb struct{ baseStruct }

func (n *baseStructFb) ExecFallback(p any, err error) (any, error) { return n.l.fallback(p, err) }

// baseOverride embeds a *flyt.BaseNode that was left UNCONFIGURED and defines the retry getters itself: the
// RetryableNode interface — not the embedded BaseNode's fields — is what the framework must consult
type baseOverride struct{ baseStruct }

func (n *baseOverride) GetMaxRetries() int     { return n.l.cfg.Budget }
func (n *baseOverride) GetWait() time.Duration { return waitDur(n.l.cfg.Wait, n.l.cfg.WaitUs) }

// valueNode: a Node implementation used BY VALUE (not through a pointer). valueNode{0} is the zero value of its
// type — a legal node like any other. A value carries no pointer to its state, so the state is looked up in the
// scenario that currently owns `valueScenario` (scenarios with value nodes run one at a time).
type valueNode struct{ ID int }

var (
	valueScenarioMu sync.Mutex // held for the whole execution of a scenario that has value nodes
	valueImpls      map[int]*leafImpl
)

func (n valueNode) Prep(ctx context.Context, s *flyt.SharedStore) (any, error) {
	return valueImpls[n.ID].prep(s)
}
func (n valueNode) Exec(ctx context.Context, p any) (any, error) { return valueImpls[n.ID].exec(p) }
func (n valueNode) Post(ctx context.Context, s *flyt.SharedStore, p, x any) (flyt.Action, error) {
	return valueImpls[n.ID].post(s, p, x)
}

// nilNode: a Node implementation used through a NIL pointer: the type has no fields, its methods never touch the receiver, so
// `(*nilNode)(nil)` is a perfectly good node (a non-nil interface value holding a nil pointer). Like valueNode it carries no
// state: the callbacks are looked up in the scenario that owns `nilImpl` (at most one such node per scenario).
type nilNode struct{}

var nilImpl *leafImpl

func (n *nilNode) Prep(ctx context.Context, s *flyt.SharedStore) (any, error) { return nilImpl.prep(s) }
func (n *nilNode) Exec(ctx context.Context, p any) (any, error)               { return nilImpl.exec(p) }
func (n *nilNode) Post(ctx context.Context, s *flyt.SharedStore, p, x any) (flyt.Action, error) {
	return nilImpl.post(s, p, x)
}

// emptyA / emptyB: two DIFFERENT field-less node types used through (non-nil) pointers. Pointers to zero-size values may
// all share one address, so these two nodes are told apart by their dynamic type only. State is looked up like nilNode's.
type emptyA struct{}
type emptyB struct{}

var emptyImpls [2]*leafImpl

func (n *emptyA) Prep(ctx context.Context, s *flyt.SharedStore) (any, error) {
	return emptyImpls[0].prep(s)
}
func (n *emptyA) Exec(ctx context.Context, p any) (any, error) { return emptyImpls[0].exec(p) }
func (n *emptyA) Post(ctx context.Context, s *flyt.SharedStore, p, x any) (flyt.Action, error) {
	return emptyImpls[0].post(s, p, x)
}
func (n *emptyB) Prep(ctx context.Context, s *flyt.SharedStore) (any, error) {
	return emptyImpls[1].prep(s)
}
func (n *emptyB) Exec(ctx context.Context, p any) (any, error) { return emptyImpls[1].exec(p) }
func (n *emptyB) Post(ctx context.Context, s *flyt.SharedStore, p, x any) (flyt.Action, error) {
	return emptyImpls[1].post(s, p, x)
}

func (e *runtimeEnv) buildLeaf(id int, cfg *LeafCfg) flyt.Node {
	rt := &nodeRT{env: e, id: id, visit: -1}
	e.rts[id] = rt
	l := &leafImpl{rt0: rt, cfg: cfg}
	if cfg.Impl == "inner" {
		return e.nodes[cfg.Of].(*flyt.NodeBuilder).CustomNode
	}
	wait := waitDur(cfg.Wait, cfg.WaitUs)
	isFunc := cfg.PrepS == "res" || cfg.PrepS == "any" || cfg.ExecS == "res" || cfg.ExecS == "any" ||
		cfg.PostS == "res" || cfg.PostS == "any"
	if isFunc {
		return e.buildFuncNode(l, cfg, wait)
	}
	switch {
	case cfg.Fb == "absent" && !cfg.Retryable && cfg.Impl == "value" && cfg.PrepS == "direct" && cfg.ExecS == "direct" && cfg.PostS == "direct":
		e.valueNodes[id] = l
		return valueNode{ID: id}
	case cfg.Fb == "absent" && !cfg.Retryable && (cfg.Impl == "emptyA" || cfg.Impl == "emptyB") && cfg.PrepS == "direct" && cfg.ExecS == "direct" && cfg.PostS == "direct":
		if cfg.Impl == "emptyA" {
			e.emptyNodeImpls[0] = l
			return &emptyA{}
		}
		e.emptyNodeImpls[1] = l
		return &emptyB{}
	case cfg.Fb == "absent" && !cfg.Retryable && cfg.Impl == "nilptr" && cfg.PrepS == "direct" && cfg.ExecS == "direct" && cfg.PostS == "direct":
		e.nilNodeImpl = l
		return (*nilNode)(nil)
	case cfg.Impl == "twin" && cfg.PrepS != "absent":
		// four DIFFERENT node types that print the same name (function-local types all called `step`, as same-named types of
		// different packages do): what a node implements is a property of its type, not of its type's name
		switch {
		case cfg.Fb == "absent" && !cfg.Retryable:
			return twinPlain(l)
		case cfg.Fb == "absent":
			return twinRetry(l)
		case !cfg.Retryable:
			return twinFb(l)
		default:
			return twinRetryFb(l)
		}
	case cfg.Fb == "absent" && !cfg.Retryable:
		return &plainNode{l}
	case cfg.Fb == "absent" && cfg.Retryable:
		return &plainRetry{plainNode{l}}
	case cfg.Fb == "custom" && !cfg.Retryable:
		return &plainFb{plainNode{l}}
	case cfg.Fb == "custom" && cfg.Impl == "plain":
		return &plainRetryFb{plainRetry{plainNode{l}}}
	case cfg.Fb == "custom":
		return &baseStructFb{baseStruct{flyt.NewBaseNode(flyt.WithMaxRetries(cfg.Budget), flyt.WithWait(wait)), l}}
	case cfg.Impl == "zeroptr": // the embedded *BaseNode is the zero value, not NewBaseNode()'s
		return &baseStruct{&flyt.BaseNode{}, l}
	case cfg.Impl == "zeroval": // BaseNode embedded BY VALUE (zero value)
		return &valBaseStruct{l: l}
	case cfg.Impl == "override": // pass-through fallback of an unconfigured BaseNode, getters defined by the user type
		return &baseOverride{baseStruct{flyt.NewBaseNode(), l}}
	default: // pass
		return &baseStruct{flyt.NewBaseNode(flyt.WithMaxRetries(cfg.Budget), flyt.WithWait(wait)), l}
	}
}

func twinPlain(l *leafImpl) flyt.Node {
	type step struct{ *plainNode }
	return step{&plainNode{l}}
}
func twinRetry(l *leafImpl) flyt.Node {
	type step struct{ *plainRetry }
	return step{&plainRetry{plainNode{l}}}
}
func twinFb(l *leafImpl) flyt.Node {
	type step struct{ *plainFb }
	return step{&plainFb{plainNode{l}}}
}
func twinRetryFb(l *leafImpl) flyt.Node {
	type step struct{ *plainRetryFb }
	return step{&plainRetryFb{plainRetry{plainNode{l}}}}
}

// function-style node through flyt.NewNode: options, builder methods, or a mixture
func (e *runtimeEnv) buildFuncNode(l *leafImpl, cfg *LeafCfg, wait time.Duration) flyt.Node {
	prepRes := func(ctx context.Context, s *flyt.SharedStore) (flyt.Result, error) {
		l.rtx().env.seeCtx(ctx, "prep")
		v, err := l.prep(s)
		if err != nil {
			if v != nil {
				return asResult(v), err
			}
			return flyt.Result{}, err
		}
		return asResult(v), nil
	}
	prepAny := func(ctx context.Context, s *flyt.SharedStore) (any, error) {
		l.rtx().env.seeCtx(ctx, "prep")
		return l.prep(s)
	}
	execRes := func(ctx context.Context, p flyt.Result) (flyt.Result, error) {
		l.rtx().env.seeCtx(ctx, "exec")
		v, err := l.exec(p)
		if err != nil {
			if v != nil {
				return asResult(v), err
			}
			return flyt.Result{}, err
		}
		return asResult(v), nil
	}
	execAny := func(ctx context.Context, p any) (any, error) { l.rtx().env.seeCtx(ctx, "exec"); return l.exec(p) }
	postRes := func(ctx context.Context, s *flyt.SharedStore, p, x flyt.Result) (flyt.Action, error) {
		l.rtx().env.seeCtx(ctx, "post")
		return l.post(s, p, x)
	}
	postAny := func(ctx context.Context, s *flyt.SharedStore, p, x any) (flyt.Action, error) {
		l.rtx().env.seeCtx(ctx, "post")
		return l.post(s, p, x)
	}
	fb := func(p any, err error) (any, error) { return l.fallback(p, err) }

	var opts []any
	type bstep func(b *flyt.NodeBuilder) *flyt.NodeBuilder
	var steps []bstep
	add := func(i int, opt any, st bstep) {
		useOpt := cfg.Build == "option" || (cfg.Build == "mixed" && i%2 == 0) || (cfg.Build == "mixed2" && i%2 == 1)
		if useOpt {
			opts = append(opts, opt)
		} else {
			steps = append(steps, st)
		}
	}
	reconf := (cfg.Budget+cfg.Wait+len(cfg.ExecS)+len(cfg.Fb))%3 == 0
	if !reconf {
		add(0, flyt.WithMaxRetries(cfg.Budget), func(b *flyt.NodeBuilder) *flyt.NodeBuilder { return b.WithMaxRetries(cfg.Budget) })
		add(1, flyt.WithWait(wait), func(b *flyt.NodeBuilder) *flyt.NodeBuilder { return b.WithWait(wait) })
	}
	switch cfg.PrepS {
	case "res":
		add(2, flyt.WithPrepFunc(prepRes), func(b *flyt.NodeBuilder) *flyt.NodeBuilder { return b.WithPrepFunc(prepRes) })
	case "any":
		add(2, flyt.WithPrepFuncAny(prepAny), func(b *flyt.NodeBuilder) *flyt.NodeBuilder { return b.WithPrepFuncAny(prepAny) })
	}
	// a quarter of the function-style nodes get their exec function TWICE: first a decoy in the OTHER style (it does what the real
	// one does but hands on a value of its own), as a constructor option; then the real one through the builder setter. The last
	// setting of a phase wins, whatever style the earlier one had.
	decoyExec := (l.rt0.id+cfg.Budget+len(cfg.PostS)+len(cfg.Fb))%4 == 2
	switch {
	case cfg.ExecS == "res" && decoyExec:
		opts = append(opts, flyt.WithExecFuncAny(func(ctx context.Context, p any) (any, error) {
			v, err := execAny(ctx, p)
			if err == nil {
				return "value of a replaced exec function", nil
			}
			return v, err
		}))
		steps = append(steps, func(b *flyt.NodeBuilder) *flyt.NodeBuilder { return b.WithExecFunc(execRes) })
	case cfg.ExecS == "any" && decoyExec:
		opts = append(opts, flyt.WithExecFunc(func(ctx context.Context, p flyt.Result) (flyt.Result, error) {
			r, err := execRes(ctx, p)
			if err == nil {
				return flyt.NewResult("value of a replaced exec function"), nil
			}
			return r, err
		}))
		steps = append(steps, func(b *flyt.NodeBuilder) *flyt.NodeBuilder { return b.WithExecFuncAny(execAny) })
	case cfg.ExecS == "res":
		add(3, flyt.WithExecFunc(execRes), func(b *flyt.NodeBuilder) *flyt.NodeBuilder { return b.WithExecFunc(execRes) })
	case cfg.ExecS == "any":
		add(3, flyt.WithExecFuncAny(execAny), func(b *flyt.NodeBuilder) *flyt.NodeBuilder { return b.WithExecFuncAny(execAny) })
	}
	switch cfg.PostS {
	case "res":
		add(4, flyt.WithPostFunc(postRes), func(b *flyt.NodeBuilder) *flyt.NodeBuilder { return b.WithPostFunc(postRes) })
	case "any":
		add(4, flyt.WithPostFuncAny(postAny), func(b *flyt.NodeBuilder) *flyt.NodeBuilder { return b.WithPostFuncAny(postAny) })
	}
	if cfg.Fb == "custom" {
		add(5, flyt.WithExecFallbackFunc(fb), func(b *flyt.NodeBuilder) *flyt.NodeBuilder { return b.WithExecFallbackFunc(fb) })
	}
	// batch settings on a node that is NOT a batch node (NewNode, not NewBatchNode) configure nothing the run of a
	// single node looks at: a third of the function-style leaves carry them (which, and in which form, is a function
	// of the node id and its configuration so that the scenario stays deterministic)
	if id := l.rt0.id + cfg.Budget + cfg.Wait + len(cfg.PrepS) + 2*len(cfg.PostS); id%3 == 1 {
		conc, cont := 1+id%4, id%2 == 0
		add(6+id%2, flyt.WithBatchConcurrency(conc), func(b *flyt.NodeBuilder) *flyt.NodeBuilder { return b.WithBatchConcurrency(conc) })
		if id%5 != 0 {
			add(7+id%2, flyt.WithBatchErrorHandling(cont), func(b *flyt.NodeBuilder) *flyt.NodeBuilder { return b.WithBatchErrorHandling(cont) })
		}
	}
	// a third of the function-style nodes are RE-configured: built with decoy retry settings, the getters read (whatever a
	// getter may cache must not outlive a later setting), then given their real settings — budget, a getter read in
	// between, then the wait — through the option functions applied to the node's BaseNode
	if reconf {
		decoy := []any{flyt.WithMaxRetries(cfg.Budget + 2), flyt.WithWait(0)} // no wait at all: a stale wait would be too SHORT
		b := flyt.NewNode(append(decoy, opts...)...)
		_, _ = b.GetMaxRetries(), b.GetWait()
		b0 := b
		for _, st := range steps {
			b = st(b)
		}
		e.setConnectAs(l.rt0.id, b0)
		_, _ = b.GetMaxRetries(), b.GetWait()
		flyt.WithMaxRetries(cfg.Budget)(b.BaseNode)
		_ = b.GetWait()
		flyt.WithWait(wait)(b.BaseNode)
		return b
	}
	// fluent style: the node is what the LAST setter returned (flyt.NewNode(..).WithX(..).WithY(..)); the builder the chain
	// started from is the same node, and it is the one the flow's connections are made from (connectAs)
	b := flyt.NewNode(opts...)
	e.setConnectAs(l.rt0.id, b)
	for _, st := range steps {
		b = st(b)
	}
	return b
}

func (e *runtimeEnv) setConnectAs(id int, n flyt.Node) {
	if e.connectAs == nil {
		e.connectAs = map[int]flyt.Node{}
	}
	e.connectAs[id] = n
}

// ---- batch nodes ----

var defaultBatchScript = BatchScript{Prep: "!999", Post: "!996"}

func (e *runtimeEnv) batchScript(n, v int) *BatchScript {
	if s, ok := e.batchScr[[2]int{n, v}]; ok {
		return s
	}
	return &defaultBatchScript
}

type batchImpl struct {
	rt0  *nodeRT // run-time state (incl. attempts / item tokens) of the run the node was built for; see rtx
	cfg  *BatchCfg
	gate func(i, k int) // optional hook called inside every exec (gated family)
}

func (b *batchImpl) rtx() *nodeRT { return resolveRT(b.rt0) }

func parseBatchPrep(s string) (vals []string, errN int, ok, cancels bool) {
	if strings.HasSuffix(s, "*") {
		cancels = true
		s = s[:len(s)-1]
	}
	if strings.HasPrefix(s, "!") {
		errN, _ = strconv.Atoi(s[1:])
		return nil, errN, false, cancels
	}
	if s == "-" {
		return nil, 0, true, cancels
	}
	return strings.Split(s, ","), 0, true, cancels
}

// itemIndex finds which item an exec/fallback argument belongs to (items of one batch visit carry
// pairwise distinct payload tokens; generators guarantee it).
func (rt *nodeRT) itemIndex(v int, arg any) int {
	i, _ := rt.itemIndexClaim(v, arg, false)
	return i
}

// itemIndexClaim: with claim, the attempt counter of the item found is read and incremented in the same critical section
// (equal payloads executed by several workers at once must not be given the same position)
func (rt *nodeRT) itemIndexClaim(v int, arg any, claim bool) (idx int, attempt int) {
	tok := itemKey(arg)
	rt.mu.Lock()
	defer rt.mu.Unlock()
	defer func() {
		if claim && idx != 9999 {
			if rt.battempts == nil {
				rt.battempts = map[[2]int]int{}
			}
			attempt = rt.battempts[[2]int{v, idx}]
			rt.battempts[[2]int{v, idx}] = attempt + 1
		}
	}()
	idx = rt.itemIndexLocked(v, tok)
	return idx, 0
}

func (rt *nodeRT) itemIndexLocked(v int, tok int) int {
	first := -1
	for i, t := range rt.itemTok[v] {
		if t == tok {
			// equal payloads at several positions (generated only with budget 1, pass-through fallback and identical or
			// order-determined scripts): the first position that has not been executed yet
			if first < 0 {
				first = i
			}
			if rt.battempts[[2]int{v, i}] == 0 {
				return i
			}
		}
	}
	if first >= 0 {
		return first
	}
	if tok == 0 {
		// nil: the Value() of an error-Result item as an Any-style exec function sees it (generators put at most
		// one such item into a batch, and no nil item next to it)
		for i, t := range rt.itemTok[v] {
			if t < 0 {
				return i
			}
		}
	}
	return 9999
}

// itemKey identifies an item by its payload: the token at the bottom of any nesting of Results; an error-Result
// item (no payload) by its error: -1-n for user error n.
func itemKey(x any) int {
	if r, ok := x.(flyt.Result); ok {
		if r.IsError() {
			es := errStr(r.Error())
			if strings.HasPrefix(es, "u") {
				n, _ := strconv.Atoi(es[1:])
				return -1 - n
			}
			return -1
		}
		return itemKey(r.Value())
	}
	return tokOf(x)
}

func (e *runtimeEnv) buildBatch(id int, cfg *BatchCfg) flyt.Node {
	rt := &nodeRT{env: e, id: id, visit: -1}
	e.rts[id] = rt
	b := &batchImpl{rt0: rt, cfg: cfg}
	bb := e.buildBatchWith(b)
	if cfg.Build == "bare" {
		// flyt.Run also accepts the bare *BatchNode (without the builder wrapper)
		return bb.BatchNode
	}
	return bb
}

func (e *runtimeEnv) buildBatchWith(b *batchImpl) *flyt.BatchNodeBuilder {
	cfg, id := b.cfg, b.rt0.id
	wait := waitDur(cfg.Wait, cfg.WaitUs)
	// the batch settings the node is BUILT with: the real ones, or (PrepConf) decoys that the prep callback replaces
	bConc, bStop := cfg.Conc, cfg.Stop
	var reconf func()
	if cfg.PrepConf {
		bStop = !cfg.Stop
		if cfg.Conc > 0 {
			bConc = 0
		} else {
			bConc = 3
		}
	}

	// prep as the Go value the scenario's shape asks for
	prepCommon := func(shared *flyt.SharedStore) (vals []any, results []flyt.Result, err error) {
		rt := b.rtx()
		e := rt.env
		v := rt.enterBatchPrep()
		e.record(fmt.Sprintf("bp:%d:%d:%d", id, v, e.sid(shared)))
		if reconf != nil {
			reconf()
		}
		var log []int
		if x, ok := shared.Get("visits"); ok {
			log = append(log, x.([]int)...)
		}
		shared.Set("visits", append(log, id))
		strs, errN, ok, cancels := parseBatchPrep(e.batchScript(id, v).Prep)
		if cancels {
			e.cancelNow()
		}
		if !ok {
			return nil, nil, userError(errN)
		}
		toks := make([]int, 0, len(strs))
		for _, s := range strs {
			x := mustVal(s)
			vals = append(vals, x)
			r := asResult(x)
			results = append(results, r)
			toks = append(toks, itemKey(x))
		}
		if cfg.Shape == "single" && len(toks) > 1 {
			toks = toks[:1]
		}
		rt.mu.Lock()
		if rt.itemTok == nil {
			rt.itemTok = map[int][]int{}
		}
		rt.itemTok[v] = toks
		rt.mu.Unlock()
		return vals, results, nil
	}
	prepAny := func(ctx context.Context, shared *flyt.SharedStore) (any, error) {
		vals, _, err := prepCommon(shared)
		if err != nil {
			return nil, err
		}
		switch cfg.Shape {
		case "anys":
			if vals == nil {
				vals = []any{}
			}
			return vals, nil
		case "typed":
			out := make([]int, len(vals))
			for i, x := range vals {
				out[i] = x.(int)
			}
			return out, nil
		case "ptrs": // a typed slice whose elements may be nil: every element is an item, the nil ones too
			out := make([]*int, len(vals))
			for i, x := range vals {
				out[i] = x.(*int)
			}
			return out, nil
		case "single":
			return vals[0], nil
		case "nil":
			return nil, nil
		}
		panic("bad shape " + cfg.Shape)
	}
	prepRes := func(ctx context.Context, shared *flyt.SharedStore) ([]flyt.Result, error) {
		_, rs, err := prepCommon(shared)
		if err != nil {
			return nil, err
		}
		if rs == nil {
			rs = []flyt.Result{}
		}
		return rs, nil
	}
	execCommon := func(arg any) (any, error) {
		rt := b.rtx()
		e := rt.env
		v := rt.cur()
		i, k := rt.itemIndexClaim(v, arg, true)
		e.record(fmt.Sprintf("be:%d:%d:%d:%d:%s", id, v, i, k, encVal(arg)))
		e.maybePanic("b" + strconv.Itoa(i) + ":" + strconv.Itoa(k)) // panic family: exec attempt k of item i panics
		if b.gate != nil {
			b.gate(i, k)
		}
		scr := e.batchScript(id, v)
		var o outcome
		var wc []int
		if i < len(scr.Items) {
			o = execOutcome(scr.Items[i].Exec, k)
			wc = scr.Items[i].WaitCancel
		} else {
			o = parseOutVal("!998")
		}
		if o.cancels {
			e.cancelNow()
		}
		if contains(wc, k+1) {
			go func() { time.Sleep(30 * time.Millisecond); e.cancelNow() }()
		}
		if !o.ok {
			return o.val, userError(o.errN)
		}
		return o.val, nil
	}
	execRes := func(ctx context.Context, p flyt.Result) (flyt.Result, error) {
		v, err := execCommon(p)
		if err != nil {
			if v != nil {
				return asResult(v), err
			}
			return flyt.Result{}, err
		}
		return asResult(v), nil
	}
	execAny := func(ctx context.Context, p any) (any, error) { return execCommon(p) }
	fb := func(arg any, err error) (any, error) {
		rt := b.rtx()
		e := rt.env
		v := rt.cur()
		i := rt.itemIndex(v, arg)
		e.record(fmt.Sprintf("bf:%d:%d:%d:%s:%s", id, v, i, encVal(arg), errStr(err)))
		scr := e.batchScript(id, v)
		o := parseOutVal("!997")
		if i < len(scr.Items) {
			o = parseOutVal(scr.Items[i].Fb)
		}
		if o.cancels {
			e.cancelNow()
		}
		if !o.ok {
			return o.val, userError(o.errN)
		}
		return o.val, nil
	}
	post := func(ctx context.Context, shared *flyt.SharedStore, items, results []flyt.Result) (flyt.Action, error) {
		rt := b.rtx()
		e := rt.env
		v := rt.cur()
		e.record(fmt.Sprintf("bo:%d:%d:%d:%s:%s", id, v, e.sid(shared), encVals(items), encVals(results)))
		o := parseOutAct(e.batchScript(id, v).Post)
		if o.cancels {
			e.cancelNow()
		}
		if !o.ok {
			return flyt.Action(o.act), userError(o.errN)
		}
		return flyt.Action(o.act), nil
	}

	// which settings are written as constructor options (the others through the builder's methods afterwards):
	// "option" all, "builder"/"bare" none, "mixed" wait + error mode, "mixed2" budget + concurrency
	var baseOpts []any
	optBudget := cfg.Build == "option" || cfg.Build == "mixed2"
	optWait := cfg.Build == "option" || cfg.Build == "mixed"
	// the four settings write four different fields: the order in which they are made is immaterial. Half of the nodes
	// get them in the order error mode, wait, concurrency, budget instead of budget, concurrency, wait, error mode
	swapped := (cfg.Budget+cfg.Conc+len(cfg.Shape)+len(cfg.ExecS))%2 == 1
	if optBudget && !swapped {
		baseOpts = append(baseOpts, flyt.WithMaxRetries(cfg.Budget), flyt.WithBatchConcurrency(bConc))
	}
	if optWait {
		if swapped {
			baseOpts = append(baseOpts, flyt.WithBatchErrorHandling(!bStop), flyt.WithWait(wait))
		} else {
			baseOpts = append(baseOpts, flyt.WithWait(wait), flyt.WithBatchErrorHandling(!bStop))
		}
	}
	if optBudget && swapped {
		baseOpts = append(baseOpts, flyt.WithBatchConcurrency(bConc), flyt.WithMaxRetries(cfg.Budget))
	}
	bb := flyt.NewBatchNode(baseOpts...)
	native := cfg.Shape == "results" && cfg.Fb == "pass" && cfg.ExecVia == ""
	if !native {
		// prep through CustomNode.Prep and/or a custom fallback: give the batch builder a CustomNode built
		// with the corresponding options (its BaseNode then carries the configuration)
		var opts []any
		if cfg.Shape != "results" {
			opts = append(opts, flyt.WithPrepFuncAny(prepAny))
		}
		if cfg.Fb == "custom" {
			opts = append(opts, flyt.WithExecFallbackFunc(fb))
		}
		opts = append(opts, baseOpts...)
		// ExecVia: the exec function is installed on the CustomNode itself — through NewNode's options ("copt") or
		// through NodeBuilder methods ("cbuilder") — instead of through the BatchNodeBuilder's own setters; the
		// batch node is then `&BatchNode{CustomNode: NewNode(...).CustomNode}` as far as exec / fallback go
		if cfg.ExecVia == "copt" {
			switch cfg.ExecS {
			case "res":
				opts = append(opts, flyt.WithExecFunc(execRes))
			case "any":
				opts = append(opts, flyt.WithExecFuncAny(execAny))
			}
		}
		nb := flyt.NewNode(opts...)
		if cfg.ExecVia == "cbuilder" {
			switch cfg.ExecS {
			case "res":
				nb.WithExecFunc(execRes)
			case "any":
				nb.WithExecFuncAny(execAny)
			}
		}
		bb.BatchNode.CustomNode = nb.CustomNode
	}
	if !optBudget && !swapped {
		bb.WithMaxRetries(cfg.Budget).WithBatchConcurrency(bConc)
	}
	if !optWait {
		if swapped {
			bb.WithBatchErrorHandling(!bStop).WithWait(wait)
		} else {
			bb.WithWait(wait).WithBatchErrorHandling(!bStop)
		}
	}
	if !optBudget && swapped {
		bb.WithBatchConcurrency(bConc).WithMaxRetries(cfg.Budget)
	}
	if cfg.Shape == "results" {
		bb.WithPrepFunc(prepRes)
	}
	if cfg.ExecVia == "" {
		switch cfg.ExecS {
		case "res":
			bb.WithExecFunc(execRes)
		case "any":
			bb.WithExecFuncAny(execAny)
		}
	}
	if cfg.HasPost {
		bb.WithPostFunc(post)
	}
	if cfg.PrepConf {
		reconf = func() {
			bb.WithBatchConcurrency(cfg.Conc)
			bb.WithBatchErrorHandling(!cfg.Stop)
		}
	}
	return bb
}

// ---- building the arena and running the steps ----

func newRuntime(sc *FlowScenario) *runtimeEnv {
	e := &runtimeEnv{sc: sc, leafScr: map[[2]int]*LeafScript{}, batchScr: map[[2]int]*BatchScript{},
		nodes: map[int]flyt.Node{}, rts: map[int]*nodeRT{}, valueNodes: map[int]*leafImpl{}, late: map[int][]lateConn{}}
	for i := range sc.LeafScripts {
		s := &sc.LeafScripts[i]
		e.leafScr[[2]int{s.N, s.V}] = s
	}
	for i := range sc.BatchScripts {
		s := &sc.BatchScripts[i]
		e.batchScr[[2]int{s.N, s.V}] = s
	}
	// leaves and batches first, then flows (a flow's start must exist when it is created)
	for i := range sc.Nodes {
		n := &sc.Nodes[i]
		switch {
		case n.Leaf != nil:
			e.nodes[n.ID] = e.buildLeaf(n.ID, n.Leaf)
		case n.Batch != nil:
			e.nodes[n.ID] = e.buildBatch(n.ID, n.Batch)
		}
	}
	flows := map[int]*flyt.Flow{}
	// create flows in an order that respects "start exists": iterate until fixpoint
	pending := []*NodeDef{}
	for i := range sc.Nodes {
		if sc.Nodes[i].Flow != nil {
			pending = append(pending, &sc.Nodes[i])
		}
	}
	for len(pending) > 0 {
		progress := false
		rest := pending[:0]
		for _, n := range pending {
			if n.Flow.Start == nil {
				f := flyt.NewFlow(nil)
				flows[n.ID], e.nodes[n.ID] = f, f
				progress = true
				continue
			}
			if st, ok := e.nodes[*n.Flow.Start]; ok {
				f := flyt.NewFlow(st)
				flows[n.ID], e.nodes[n.ID] = f, f
				progress = true
				continue
			}
			rest = append(rest, n)
		}
		pending = rest
		if !progress {
			panic("flow start nodes form a cycle")
		}
	}
	for i := range sc.Nodes {
		n := &sc.Nodes[i]
		if n.Flow == nil {
			continue
		}
		for _, c := range n.Flow.Ops {
			if c.Late {
				e.late[c.Src] = append(e.late[c.Src], lateConn{flows[n.ID], c})
				continue
			}
			e.connect(flows[n.ID], c.Src, c.Action, c.Dst)
		}
	}
	return e
}

type lateConn struct {
	f *flyt.Flow
	c Conn
}

// lateify marks connections as late (see Conn.Late): the last connection of its (flow, src, action) triple, whose source is
// a leaf with a post callback, in scenarios without Connect steps between runs. `h` seeds the choice.
func lateify(sc *FlowScenario, h uint64) {
	for _, st := range sc.Steps {
		if st.Connect != nil {
			return
		}
	}
	leafPost := map[int]bool{}
	for _, n := range sc.Nodes {
		if n.Leaf != nil && n.Leaf.PostS != "absent" && n.Leaf.Impl != "value" && n.Leaf.Impl != "nilptr" && n.Leaf.Impl != "emptyA" && n.Leaf.Impl != "emptyB" {
			leafPost[n.ID] = true
		}
	}
	for i := range sc.Nodes {
		fl := sc.Nodes[i].Flow
		if fl == nil || len(fl.Ops) == 0 {
			continue
		}
		ops := append([]Conn{}, fl.Ops...)
		changed := false
		for j := range ops {
			h = h*6364136223846793005 + 1442695040888963407
			if (h>>33)%3 != 0 || !leafPost[ops[j].Src] {
				continue
			}
			last := true
			for k := j + 1; k < len(ops); k++ {
				if ops[k].Src == ops[j].Src && ops[k].Action == ops[j].Action {
					last = false
				}
			}
			if last {
				ops[j].Late, changed = true, true
			}
		}
		if changed {
			nf := *fl
			nf.Ops = ops
			sc.Nodes[i].Flow = &nf
		}
	}
}

func (e *runtimeEnv) connect(f *flyt.Flow, src int, action string, dst *int) {
	var to flyt.Node
	if dst != nil {
		to = e.nodes[*dst]
	}
	from := e.nodes[src]
	if alt, ok := e.connectAs[src]; ok {
		from = alt
	}
	f.Connect(from, flyt.Action(action), to)
}

// makeCtx creates the run's context according to the scenario's kind
func (e *runtimeEnv) makeCtx(kind string) {
	switch kind {
	case "deadline":
		e.ctx = newTestCtx("deadline")
	case "cause": // cancelled with a custom cause: ctx.Err() is still context.Canceled and that is what must be matched
		e.ctx = nil
		c, stop := context.WithCancelCause(context.Background())
		e.realCtx, e.realStop = c, func() { stop(errors.New("custom cancellation cause")) }
	case "fardeadline": // a deadline far in the future, cancelled by hand long before it
		e.ctx = nil
		c, stop := context.WithDeadline(context.Background(), time.Now().Add(time.Hour))
		e.realCtx, e.realStop = c, stop
	case "neardeadline": // a REAL deadline that expires by itself while the run is parked in a (long) retry wait
		e.ctx = nil
		e.realCtx, e.realStop = context.WithTimeout(context.Background(), nearDeadline)
	case "child": // a child (with a value and a far timeout of its own) of the context that gets cancelled
		e.ctx = nil
		parent, stop := context.WithCancel(context.Background())
		c, stop2 := context.WithTimeout(context.WithValue(parent, ctxKey{}, 1), 2*time.Hour)
		e.realCtx, e.realStop = c, func() { stop(); stop2() }
	default:
		e.ctx = nil
		e.realCtx, e.realStop = context.WithCancel(context.Background())
	}
}

type ctxKey struct{}

// nearDeadline: how long after its creation the context of kind "neardeadline" expires
const nearDeadline = 45 * time.Millisecond

const runWatchdog = 10 * time.Second

// panicMark: the "action" the runner goroutine reports when flyt.Run panicked
const panicMark = flyt.Action("\x00panic\x00")

// flowHangs counts runs of this process that hit the watchdog; after a few, the remaining runs are reported
// as hangs without being started (a change that makes flyt hang must cost seconds, not hours)
var flowHangs int32

func (e *runtimeEnv) runOnce(root int) RunObs { return e.runOnceVia(root, "") }

func (e *runtimeEnv) runOnceVia(root int, via string) RunObs {
	if atomic.LoadInt32(&flowHangs) >= 3 {
		return RunObs{Trace: []string{}, Out: "H", Store: []int{}}
	}
	e.mu.Lock()
	e.trace = nil
	e.stores = nil
	e.seenCtx = nil
	e.mu.Unlock()
	e.runStore = flyt.NewSharedStore()
	e.makeCtx(e.sc.Kind)
	if e.sc.Ctx0 == "done" {
		e.cancelNow()
	}
	type res struct {
		a   flyt.Action
		err error
	}
	ch := make(chan res, 1)
	go func() {
		// a panic escaping from flyt.Run (no scripted callback panics) is an outcome of its own: "P"
		defer func() {
			if r := recover(); r != nil {
				ch <- res{panicMark, nil}
			}
		}()
		if e.onRunner != nil {
			e.onRunner()
		}
		if f, ok := e.nodes[root].(*flyt.Flow); ok && via == "flow" {
			err := f.Run(e.context(), e.runStore)
			a := flyt.Action("")
			if err == nil {
				a = "*"
			}
			ch <- res{a, err}
			return
		}
		a, err := flyt.Run(e.context(), e.nodes[root], e.runStore)
		ch <- res{a, err}
	}()
	_ = panicMark
	var out string
	select {
	case r := <-ch:
		switch {
		case r.a == panicMark:
			out = "P"
		case r.err == nil:
			out = "A" + string(r.a)
		case r.a == "":
			out = "E" + errStr(r.err)
		default:
			out = "B" + errStr(r.err) + ":" + string(r.a)
		}
	case <-time.After(runWatchdog):
		out = "H" // hang
		atomic.AddInt32(&flowHangs, 1)
	}
	if e.ctx == nil {
		e.realStop()
	}
	e.mu.Lock()
	tr := append([]string{}, e.trace...)
	e.mu.Unlock()
	var store []int
	if v, ok := e.runStore.Get("visits"); ok {
		store = append(store, v.([]int)...)
	}
	if store == nil {
		store = []int{}
	}
	return RunObs{Trace: tr, Out: out, Store: store}
}

// normaliseZero: a node kind whose BaseNode is the zero value has the zero value's settings, whatever a generator wrote
func normaliseZero(sc *FlowScenario) {
	for _, n := range sc.Nodes {
		if n.Leaf != nil && strings.HasPrefix(n.Leaf.Impl, "zero") {
			n.Leaf.Budget, n.Leaf.Wait = 0, 0
		}
	}
}

func execFlowScenario(sc *FlowScenario) FlowObs {
	normaliseZero(sc)
	for _, n := range sc.Nodes {
		if n.Leaf != nil && (n.Leaf.Impl == "value" || n.Leaf.Impl == "nilptr" || n.Leaf.Impl == "emptyA" || n.Leaf.Impl == "emptyB") {
			valueScenarioMu.Lock()
			defer valueScenarioMu.Unlock()
			break
		}
	}
	e := newRuntime(sc)
	if len(e.valueNodes) > 0 {
		valueImpls = e.valueNodes
	}
	if e.nilNodeImpl != nil {
		nilImpl = e.nilNodeImpl
	}
	if e.emptyNodeImpls[0] != nil || e.emptyNodeImpls[1] != nil {
		emptyImpls = e.emptyNodeImpls
	}
	obs := FlowObs{Runs: []RunObs{}}
	if sc.RBudget != nil {
		for _, st := range sc.Steps {
			if st.Run != nil {
				if f, ok := e.nodes[*st.Run].(*flyt.Flow); ok {
					flyt.WithMaxRetries(*sc.RBudget)(f.BaseNode)
				}
			}
		}
	}
	for _, st := range sc.Steps {
		switch {
		case st.Run != nil:
			obs.Runs = append(obs.Runs, e.runOnceVia(*st.Run, st.Via))
		case st.Connect != nil:
			c := st.Connect
			e.connect(e.nodes[c.Flow].(*flyt.Flow), c.Src, c.Action, c.Dst)
		}
	}
	return obs
}

var _ = sort.Ints
