package main

// Family "value" (property C15): every typed accessor of flyt.Result and flyt.SharedStore, the generic
// accessors flyt.As[T] / flyt.MustAs[T] for a fixed list of T, ToSlice and the interface comparison, on one
// Go value given by its code. Every call is made under recover; the
// whole scenario runs under a watchdog.

import (
	"math"
	"reflect"
	"strconv"
	"time"

	"github.com/mark3labs/flyt"
)

type ValueScenario struct {
	V   string `json:"v"`  // value code
	Ds  string `json:"ds"` // defaults: string, int (decimal), float64 (bits, decimal), bool, []any code, map code
	Di  string `json:"di"`
	Df  string `json:"df"`
	Db  bool   `json:"db"`
	Dsl string `json:"dsl"`
	Dm  string `json:"dm"`
	Ci  string `json:"ci"` // Go's int(v): decimal | "?" (not defined by the language) | "-" (not numeric)
	Cf  string `json:"cf"` // bits of Go's float64(v) | "-"
	// RecvErr (optional; then V is "nil"): the receiver of the Result accessors is flyt.NewErrorResult(this
	// error value) instead of flyt.NewResult(V). An error Result holds no value, so nothing else changes.
	RecvErr string `json:"recvErr,omitempty"`
	// Hist (harness only): HOW the store comes to hold V under the key — by a single Set (0), or at the end of a history in which
	// the key held a value of another kind that was read through the typed getters, then overwritten by Merge / deleted and
	// set again / cleared and merged (1..4). The getters speak about the value the store holds NOW, whatever it held before.
	Hist int `json:"hist,omitempty"`
}

type FamObsJ struct {
	As        string `json:"as"`
	Ok        string `json:"ok"`
	Or        string `json:"or"`
	Must      string `json:"must"`
	Get       string `json:"get"`
	GetOr     string `json:"getOr"`
	GetMiss   string `json:"getMiss"`
	GetOrMiss string `json:"getOrMiss"`
}

// GenObsJ: one instantiation of the generic accessors, flyt.As[T] / flyt.MustAs[T]
type GenObsJ struct {
	T    string `json:"t"` // type code of T
	As   string `json:"as"`
	Ok   string `json:"ok"`
	Must string `json:"must"`
}

type ValueObs struct {
	Str     FamObsJ   `json:"str"`
	Int     FamObsJ   `json:"int"`
	Flt     FamObsJ   `json:"flt"`
	Bool    FamObsJ   `json:"bool"`
	Slice   FamObsJ   `json:"slice"`
	Map     FamObsJ   `json:"map"`
	Gen     []GenObsJ `json:"gen"`
	ToSlice string    `json:"toSlice"`
	EqSelf  string    `json:"eqSelf"`
	EqHead  string    `json:"eqHead"`
}

// genTarget: flyt.As[T] and flyt.MustAs[T] for one T, with the results boxed into an `any`
type genTarget struct {
	typ  reflect.Type
	as   func(flyt.Result) (any, bool)
	must func(flyt.Result) any
}

func genT[T any]() genTarget {
	return genTarget{
		typ:  reflect.TypeOf((*T)(nil)).Elem(),
		as:   func(r flyt.Result) (any, bool) { x, ok := flyt.As[T](r); return x, ok },
		must: func(r flyt.Result) any { return flyt.MustAs[T](r) },
	}
}

// the instantiations every scenario observes: the same list, in the same order, as `genTargets` of
// lean/FlytModel/Model/Value.lean (the driver refuses the line otherwise)
var genTargets = []genTarget{
	genT[int](), genT[string](), genT[float64](), genT[bool](), genT[uint8](), genT[[]any](), genT[[]int](), genT[map[string]any](),
	genT[any](), genT[flyt.Result](), genT[[]flyt.Result](), genT[MyInt](), genT[*int](), genT[func()](), genT[[2]int](), genT[MyRec](),
	genT[*flyt.Result](),
}

func (j *jobList) addValue(sc ValueScenario) {
	s := sc
	fillOracle(&s)
	j.valCtr++
	s.Hist = int(j.valCtr % 5)
	j.jobs = append(j.jobs, job{fam: "value", sc: &s, run: func() any { return execValueScenario(&s) }})
}

// fillOracle computes Go's own conversions of the value (through reflect.Value.Convert, never through
// flyt): the instance of the model's parameter `Conv`.
func fillOracle(sc *ValueScenario) {
	sc.Ci, sc.Cf = "-", "-"
	v := decodeValue(sc.V, newValCtx())
	if v == nil {
		return
	}
	rv := reflect.ValueOf(v)
	switch rv.Kind() {
	case reflect.Int, reflect.Int8, reflect.Int16, reflect.Int32, reflect.Int64,
		reflect.Uint, reflect.Uint8, reflect.Uint16, reflect.Uint32, reflect.Uint64, reflect.Uintptr:
		sc.Ci = strconv.FormatInt(rv.Convert(intType).Int(), 10)
		sc.Cf = strconv.FormatUint(math.Float64bits(rv.Convert(float64Type).Float()), 10)
	case reflect.Float32, reflect.Float64:
		f := rv.Convert(float64Type).Float()
		sc.Cf = strconv.FormatUint(math.Float64bits(f), 10)
		if math.IsNaN(f) || math.IsInf(f, 0) || f < -9223372036854775808.0 || f >= 9223372036854775808.0 {
			sc.Ci = "?" // out-of-range float -> int is implementation-defined: not compared
		} else {
			sc.Ci = strconv.FormatInt(rv.Convert(intType).Int(), 10)
		}
	}
}

// guard runs f and reports a panic as the observation "panic".
func guard(f func() string) (out string) {
	defer func() {
		if r := recover(); r != nil {
			out = "panic"
		}
	}()
	return f()
}

func guard2(f func() (string, string)) (a, b string) {
	defer func() {
		if r := recover(); r != nil {
			a, b = "panic", "-"
		}
	}()
	return f()
}

func tf(b bool) string {
	if b {
		return "t"
	}
	return "f"
}

func encStr(s string) string { return "(string)\"" + s + "\"" }
func encFloat(f float64) string {
	return "(float64)#" + strconv.FormatUint(math.Float64bits(f), 10)
}
func encBool(b bool) string {
	return "(bool)" + tf(b)
}

func eqStr(f func() bool) (out string) {
	defer func() {
		if r := recover(); r != nil {
			out = "panic"
		}
	}()
	if f() {
		return "eq"
	}
	return "ne"
}

func execValueScenario(sc *ValueScenario) any {
	done := make(chan ValueObs, 1)
	go func() { done <- execValue(sc) }()
	select {
	case o := <-done:
		return o
	case <-time.After(20 * time.Second):
		t := FamObsJ{"timeout", "-", "timeout", "timeout", "timeout", "timeout", "timeout", "timeout"}
		return ValueObs{Str: t, Int: t, Flt: t, Bool: t, Slice: t, Map: t, Gen: []GenObsJ{}, ToSlice: "timeout", EqSelf: "timeout", EqHead: "timeout"}
	}
}

func execValue(sc *ValueScenario) ValueObs {
	ctx := newValCtx()
	v := decodeValue(sc.V, ctx)
	di64, err := strconv.ParseInt(sc.Di, 10, 64)
	if err != nil {
		panic("bad default int " + sc.Di)
	}
	di := int(di64)
	dfBits, err := strconv.ParseUint(sc.Df, 10, 64)
	if err != nil {
		panic("bad default float " + sc.Df)
	}
	df := math.Float64frombits(dfBits)
	var dsl []any
	if x := decodeValue(sc.Dsl, ctx); x != nil {
		dsl = x.([]any)
	}
	var dm map[string]any
	if x := decodeValue(sc.Dm, ctx); x != nil {
		dm = x.(map[string]any)
	}
	const K, MISS = "k", "missing"

	r := flyt.NewResult(v)
	if sc.RecvErr != "" {
		if v != nil {
			panic("recvErr with a value")
		}
		r = flyt.NewErrorResult(decodeValue(sc.RecvErr, ctx).(error))
	}
	st := flyt.NewSharedStore()
	st.Set("other", "x")
	if sc.Hist == 0 {
		st.Set(K, v)
	} else {
		priors := []any{[]string{"a", "b", "c"}, []int{1, 2}, 7, "text", map[string]any{"p": 1}, 2.5, true, []any{"x"}}
		prior := priors[(sc.Hist+len(sc.V))%len(priors)]
		readAll := func(k string) {
			guard(func() string {
				st.GetString(k)
				st.GetInt(k)
				st.GetFloat64(k)
				st.GetBool(k)
				st.GetSlice(k)
				st.GetMap(k)
				st.GetSliceOr(k, nil)
				st.GetMapOr(k, nil)
				st.GetStringOr(k, "")
				st.GetIntOr(k, 0)
				return ""
			})
		}
		st.Set(K, prior)
		st.Set(MISS, prior)
		readAll(K)
		readAll(MISS)
		st.Delete(MISS)
		switch sc.Hist {
		case 1:
			st.Merge(map[string]any{K: v})
		case 2:
			st.Delete(K)
			st.Set(K, v)
		case 3:
			st.Clear()
			st.Merge(map[string]any{K: v, "other": "x"})
		default:
			st.Set(K, v)
			readAll(K)
			st.Set(K, prior)
			readAll(K)
			st.Merge(map[string]any{"other": "y", K: v})
		}
	}

	// a float32 / float64 outside the range of int: Go leaves int(v) undefined, the number is not compared
	// (only the number: the ok flag and panics still are)
	masked := false
	if v != nil && sc.Ci == "?" {
		t := reflect.TypeOf(v)
		masked = t == float32Type || t == float64Type
	}
	encInt := func(n int) string { return "(int)" + strconv.Itoa(n) }
	encIntM := func(n int) string {
		if masked {
			return "?"
		}
		return encInt(n)
	}
	encSlice := func(s []any) string { return encodeValue(s, ctx) }
	encMap := func(m map[string]any) string { return encodeValue(m, ctx) }

	var o ValueObs
	o.Str.As, o.Str.Ok = guard2(func() (string, string) { s, ok := r.AsString(); return encStr(s), tf(ok) })
	o.Str.Or = guard(func() string { return encStr(r.AsStringOr(sc.Ds)) })
	o.Str.Must = guard(func() string { return encStr(r.MustString()) })
	o.Str.Get = guard(func() string { return encStr(st.GetString(K)) })
	o.Str.GetOr = guard(func() string { return encStr(st.GetStringOr(K, sc.Ds)) })
	o.Str.GetMiss = guard(func() string { return encStr(st.GetString(MISS)) })
	o.Str.GetOrMiss = guard(func() string { return encStr(st.GetStringOr(MISS, sc.Ds)) })

	o.Int.As, o.Int.Ok = guard2(func() (string, string) { n, ok := r.AsInt(); return encIntM(n), tf(ok) })
	o.Int.Or = guard(func() string { return encIntM(r.AsIntOr(di)) })
	o.Int.Must = guard(func() string { return encIntM(r.MustInt()) })
	o.Int.Get = guard(func() string { return encIntM(st.GetInt(K)) })
	o.Int.GetOr = guard(func() string { return encIntM(st.GetIntOr(K, di)) })
	o.Int.GetMiss = guard(func() string { return encInt(st.GetInt(MISS)) })
	o.Int.GetOrMiss = guard(func() string { return encInt(st.GetIntOr(MISS, di)) })

	o.Flt.As, o.Flt.Ok = guard2(func() (string, string) { f, ok := r.AsFloat64(); return encFloat(f), tf(ok) })
	o.Flt.Or = guard(func() string { return encFloat(r.AsFloat64Or(df)) })
	o.Flt.Must = guard(func() string { return encFloat(r.MustFloat64()) })
	o.Flt.Get = guard(func() string { return encFloat(st.GetFloat64(K)) })
	o.Flt.GetOr = guard(func() string { return encFloat(st.GetFloat64Or(K, df)) })
	o.Flt.GetMiss = guard(func() string { return encFloat(st.GetFloat64(MISS)) })
	o.Flt.GetOrMiss = guard(func() string { return encFloat(st.GetFloat64Or(MISS, df)) })

	o.Bool.As, o.Bool.Ok = guard2(func() (string, string) { b, ok := r.AsBool(); return encBool(b), tf(ok) })
	o.Bool.Or = guard(func() string { return encBool(r.AsBoolOr(sc.Db)) })
	o.Bool.Must = guard(func() string { return encBool(r.MustBool()) })
	o.Bool.Get = guard(func() string { return encBool(st.GetBool(K)) })
	o.Bool.GetOr = guard(func() string { return encBool(st.GetBoolOr(K, sc.Db)) })
	o.Bool.GetMiss = guard(func() string { return encBool(st.GetBool(MISS)) })
	o.Bool.GetOrMiss = guard(func() string { return encBool(st.GetBoolOr(MISS, sc.Db)) })

	o.Slice.As, o.Slice.Ok = guard2(func() (string, string) { s, ok := r.AsSlice(); return encSlice(s), tf(ok) })
	o.Slice.Or = guard(func() string { return encSlice(r.AsSliceOr(dsl)) })
	o.Slice.Must = guard(func() string { return encSlice(r.MustSlice()) })
	o.Slice.Get = guard(func() string { return encSlice(st.GetSlice(K)) })
	o.Slice.GetOr = guard(func() string { return encSlice(st.GetSliceOr(K, dsl)) })
	o.Slice.GetMiss = guard(func() string { return encSlice(st.GetSlice(MISS)) })
	o.Slice.GetOrMiss = guard(func() string { return encSlice(st.GetSliceOr(MISS, dsl)) })

	o.Map.As, o.Map.Ok = guard2(func() (string, string) { m, ok := r.AsMap(); return encMap(m), tf(ok) })
	o.Map.Or = guard(func() string { return encMap(r.AsMapOr(dm)) })
	o.Map.Must = guard(func() string { return encMap(r.MustMap()) })
	o.Map.Get = guard(func() string { return encMap(st.GetMap(K)) })
	o.Map.GetOr = guard(func() string { return encMap(st.GetMapOr(K, dm)) })
	o.Map.GetMiss = guard(func() string { return encMap(st.GetMap(MISS)) })
	o.Map.GetOrMiss = guard(func() string { return encMap(st.GetMapOr(MISS, dm)) })

	for _, g := range genTargets {
		gj := GenObsJ{T: typeCodeOf(g.typ)}
		gj.As, gj.Ok = guard2(func() (string, string) { x, ok := g.as(r); return encodeValue(x, ctx), tf(ok) })
		gj.Must = guard(func() string { return encodeValue(g.must(r), ctx) })
		o.Gen = append(o.Gen, gj)
	}

	var ts []any
	tsOK := false
	o.ToSlice = guard(func() string { ts = flyt.ToSlice(v); tsOK = true; return encSlice(ts) })
	o.EqSelf = eqStr(func() bool { return v == v }) //nolint:staticcheck // the comparison itself is the observation
	o.EqHead = "-"
	if tsOK && len(ts) == 1 {
		o.EqHead = eqStr(func() bool { return ts[0] == v })
	}
	return o
}
