package main

// Family "pool": flyt.WorkerPool driven by gated decisions (see lean/Driver/PoolFam.lean).

import (
	"bytes"
	"reflect"
	"runtime"
	"sort"
	"strconv"
	"sync"
	"sync/atomic"
	"time"

	"github.com/mark3labs/flyt"
)

type PoolSc struct {
	Workers   int      `json:"workers"`
	Decisions []string `json:"decisions"`
	Procs     int      `json:"procs,omitempty"` // > 0: run with GOMAXPROCS(Procs); the pool must not depend on it
}

type PoolPoint struct {
	Parked    []int `json:"parked"`
	SubmitRet int   `json:"submitRet"`
	WaitDone  int   `json:"waitDone"`
}

type PoolObs struct {
	Points     []PoolPoint `json:"points"`
	ExecCounts []int       `json:"execCounts"`
	Leaked     int         `json:"leaked"`
	Cap        int         `json:"cap"`
}

type poolCtl struct {
	mu     sync.Mutex
	parked map[int]chan struct{}
}

func (g *poolCtl) gate(t int) {
	ch := make(chan struct{})
	g.mu.Lock()
	g.parked[t] = ch
	g.mu.Unlock()
	<-ch
}

type poolState struct {
	parked    []int
	submitted int
	submitRet int
	waitCalls int
	waitDone  int
	released  int
	closed    bool
	step      int
	workers   int
}

type poolChooser func(st poolState) string

func countWorkers(buf []byte, owner int) int {
	n := runtime.Stack(buf, true)
	created := []byte(" in goroutine " + strconv.Itoa(owner) + "\n")
	c := 0
	for _, g := range bytes.Split(append(buf[:n:n], '\n'), []byte("\n\n")) {
		if bytes.Contains(append(g, '\n'), created) && bytes.Contains(g, []byte("flyt.(*WorkerPool).worker(")) {
			c++
		}
	}
	return c
}

func execPool(sc *PoolSc, choose poolChooser) (PoolObs, []string) {
	if hangCount >= maxHangs {
		return PoolObs{Points: []PoolPoint{}, ExecCounts: []int{}}, []string{"bad:skipped-after-hangs"}
	}
	type result struct {
		obs PoolObs
		ds  []string
	}
	out := make(chan result, 1)
	go func() { // a fresh goroutine per scenario: its id scopes the quiescence detection
		if sc.Procs > 0 {
			defer runtime.GOMAXPROCS(runtime.GOMAXPROCS(sc.Procs))
		}
		owner := goid()
		buf := make([]byte, 1<<20)
		g := &poolCtl{parked: map[int]chan struct{}{}}
		pool := flyt.NewWorkerPool(sc.Workers)
		capv := reflect.ValueOf(pool).Elem().FieldByName("tasks").Cap()
		w := sc.Workers
		if w <= 0 {
			w = 1
		}
		var counts []*int32
		var submitRet, waitDone int32
		var obs PoolObs
		obs.Cap = capv
		var decisions []string
		st := poolState{workers: w}
		waitQ := func() bool {
			deadline := time.Now().Add(6 * time.Second)
			stable := 0
			for time.Now().Before(deadline) {
				if quiescentOf(buf, -1, owner) {
					stable++
					if stable >= 2 {
						return true
					}
				} else {
					stable = 0
				}
				runtime.Gosched()
			}
			return false
		}
		waitQ()
		for {
			g.mu.Lock()
			st.parked = st.parked[:0]
			for t := range g.parked {
				st.parked = append(st.parked, t)
			}
			g.mu.Unlock()
			sort.Ints(st.parked)
			st.submitRet = int(atomic.LoadInt32(&submitRet))
			st.waitDone = int(atomic.LoadInt32(&waitDone))
			d := choose(st)
			if d == "" {
				break
			}
			decisions = append(decisions, d)
			st.step++
			switch d[0] {
			case 's':
				t := st.submitted
				st.submitted++
				c := new(int32)
				counts = append(counts, c)
				go func() {
					pool.Submit(func() {
						atomic.AddInt32(c, 1)
						g.gate(t)
					})
					atomic.AddInt32(&submitRet, 1)
				}()
			case 'r':
				t, _ := strconv.Atoi(d[1:])
				g.mu.Lock()
				ch, ok := g.parked[t]
				delete(g.parked, t)
				g.mu.Unlock()
				if !ok {
					decisions[len(decisions)-1] = "bad:" + d
				} else {
					st.released++
					close(ch)
				}
			case 'w':
				st.waitCalls++
				go func() {
					pool.Wait()
					atomic.AddInt32(&waitDone, 1)
				}()
			case 'c':
				st.closed = true
				pool.Close()
			}
			ok := waitQ()
			g.mu.Lock()
			var parked []int
			for t := range g.parked {
				parked = append(parked, t)
			}
			g.mu.Unlock()
			sort.Ints(parked)
			if parked == nil {
				parked = []int{}
			}
			obs.Points = append(obs.Points, PoolPoint{Parked: parked, SubmitRet: int(atomic.LoadInt32(&submitRet)), WaitDone: int(atomic.LoadInt32(&waitDone))})
			if !ok {
				decisions = append(decisions, "bad:no-quiescence")
				hangCount++
				break
			}
		}
		// release whatever is still parked so nothing outlives the scenario
		g.mu.Lock()
		for t, ch := range g.parked {
			close(ch)
			delete(g.parked, t)
		}
		g.mu.Unlock()
		if st.closed {
			deadline := time.Now().Add(3 * time.Second)
			for {
				obs.Leaked = countWorkers(buf, owner)
				if obs.Leaked == 0 || time.Now().After(deadline) {
					break
				}
				time.Sleep(time.Millisecond)
			}
		} else {
			// not closed by the scenario: let the tasks drain, then close to avoid leaking goroutines
			if withTimeout(10*time.Second, pool.Wait) {
				pool.Close()
			}
		}
		for _, c := range counts {
			obs.ExecCounts = append(obs.ExecCounts, int(atomic.LoadInt32(c)))
		}
		if obs.ExecCounts == nil {
			obs.ExecCounts = []int{}
		}
		if obs.Points == nil {
			obs.Points = []PoolPoint{}
		}
		out <- result{obs, decisions}
	}()
	r := <-out
	return r.obs, r.ds
}

func (j *jobList) addPool(sc PoolSc, ch func() poolChooser) {
	s := sc
	holder := &s
	j.jobs = append(j.jobs, job{fam: "pool", sc: holder, run: func() any {
		var c poolChooser
		if ch != nil {
			c = ch()
		} else {
			ds := append([]string{}, holder.Decisions...)
			c = func(st poolState) string {
				if st.step < len(ds) {
					return ds[st.step]
				}
				return ""
			}
		}
		obs, ds := execPool(holder, c)
		holder.Decisions = ds
		if holder.Decisions == nil {
			holder.Decisions = []string{}
		}
		return obs
	}})
}

func genPool(r *rng, thorough bool, shard, shards int, jl *jobList) {
	idx := 0
	mine := func() bool { idx++; return (idx-1)%shards == shard }
	maxTasks := 120
	reps := 6
	if thorough {
		maxTasks = 500
		reps = 30
	}
	for w := -1; w <= 16; w++ {
		for rep := 0; rep < reps; rep++ {
			seed := r.next()
			if !mine() {
				continue
			}
			rr := newRng(seed)
			total := rr.intn(maxTasks + 1)
			if rep == 0 {
				total = 0
			}
			if rep == 1 {
				total = maxTasks
			}
			maxBlocked := 1 + rr.intn(4) // goroutines allowed to sit in a blocked Submit at once (1..4 submitters)
			rounds := 1 + rr.intn(3)
			var targets []int // cumulative number of tasks submitted by the end of each round
			for i := 1; i <= rounds; i++ {
				targets = append(targets, total*i/rounds)
			}
			ww := w
			burst := rep%2 == 1
			mk := func() poolChooser {
				round := 0
				done := false
				extraWaits := 0 // further Wait calls made while an earlier Wait of the same round was still waiting
				var choose func(st poolState) string
				choose = func(st poolState) string {
					if done {
						return ""
					}
					inSubmit := st.submitted - st.submitRet
					waiting := st.waitCalls > st.waitDone
					rel := func() string { return "r" + strconv.Itoa(st.parked[rr.intn(len(st.parked))]) }
					if st.submitted < targets[round] {
						if inSubmit < maxBlocked && (burst || len(st.parked) == 0 || rr.chance(60)) {
							return "s" + strconv.Itoa(st.submitted)
						}
						if len(st.parked) > 0 {
							return rel()
						}
						return "s" + strconv.Itoa(st.submitted)
					}
					if st.waitCalls == round+extraWaits { // this round's Wait has not been called yet
						if inSubmit > 0 { // let every Submit return first (a Wait must not race with Add from zero)
							if len(st.parked) == 0 {
								return ""
							}
							return rel()
						}
						if len(st.parked) == 0 || rr.chance(50) {
							return "w"
						}
						return rel()
					}
					if waiting {
						if len(st.parked) == 0 {
							return "" // cannot happen on a correct pool: Wait outstanding with nothing running
						}
						if st.waitCalls-st.waitDone < 3 && rr.chance(25) {
							// a second (third) goroutine calls Wait while the first one is still waiting and tasks are still
							// running: every one of them returns only when all submitted tasks have finished
							extraWaits++
							return "w"
						}
						return rel()
					}
					round++
					if round == rounds {
						done = true
						return "c"
					}
					return choose(st)
				}
				return choose
			}
			psc := PoolSc{Workers: ww}
			if rep%3 == 2 {
				psc.Procs = 1 + rr.intn(2)
			}
			jl.addPool(psc, mk)
		}
	}
}
