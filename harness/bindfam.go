package main

// Correspondence family "bind" (property C16): SharedStore.Bind / Result.Bind / MustBind on the real
// flyt against the encoding/json reference.
//
// A scenario names a value (builder + seed, declared type tag), whether it is present (missing key /
// stored nil / value), and a destination (kind, declared element-type tag, initial contents).  Every
// object is built from its descriptor, so each of the four calls and the reference get their own
// fresh but identical value and destination, and "unchanged" is checked against one more fresh build.

import (
	"encoding/json"
	"errors"
	"fmt"
	"math"
	"os"
	"reflect"
	"sort"
	"strconv"
	"strings"
	"time"

	"github.com/mark3labs/flyt"
)

// ---------------------------------------------------------------- protocol types

type BindVal struct {
	B string `json:"b"`
	N int    `json:"n"`
}

type BindDest struct {
	Kind string   `json:"kind"` // untyped | nonptr | nilptr | ptr
	Ty   string   `json:"ty"`
	Init *BindVal `json:"init,omitempty"`
}

type BindScenario struct {
	Pres string   `json:"pres"` // missing | nil | val
	Val  *BindVal `json:"val,omitempty"`
	Vty  string   `json:"vty"`
	Key  string   `json:"key"`
	Dest BindDest `json:"dest"`
	Exp  string   `json:"exp"` // generator's declared reference outcome, "" = not declared
	// Hist > 0 (harness-only, store path): the key has a HISTORY before the observed Bind — another value was stored and bound
	// under it first (1..4: then the real value is written through Set / Merge / Delete+Set / Clear+Set; 5: the real value itself
	// was bound once before). Bind depends on the current value only, so the model does not see the history.
	Hist int `json:"hist,omitempty"`
}

type BindCall struct {
	Cls   string `json:"cls"`
	Init  bool   `json:"init"`
	Src   bool   `json:"src"`
	Ref   bool   `json:"ref"`
	Same  bool   `json:"same"`
	Wraps bool   `json:"wraps"`
}

type BindObs struct {
	Ref        string   `json:"ref"` // ok | marshal | unmarshal | na
	Store      BindCall `json:"store"`
	Result     BindCall `json:"result"`
	MustStore  BindCall `json:"mustStore"`
	MustResult BindCall `json:"mustResult"`
}

func (j *jobList) addBind(sc BindScenario) {
	s := sc
	j.jobs = append(j.jobs, job{fam: "bind", sc: &s, run: func() any { return execBindScenario(&s) }})
}

// ---------------------------------------------------------------- Go types of the universe

type bUser struct {
	ID   int            `json:"id"`
	Name string         `json:"name"`
	Tags []string       `json:"tags,omitempty"`
	Meta map[string]any `json:"meta,omitempty"`
}

type bPlain struct {
	ID     int
	Name   string
	Score  float64
	Active bool
}

// same JSON shape as bUser, different Go type (and widths)
type bUserCompat struct {
	ID    int64  `json:"id"`
	Name  string `json:"name"`
	Extra string `json:"extra"`
}

// matches bPlain only through encoding/json's case-insensitive field matching
type bPlainCompat struct {
	Id    int
	NAME  string
	Score float32
}

// same keys as bUser with clashing field types: the decode fails after writing part of it
type bClash struct {
	Name int      `json:"name"`
	Tags []string `json:"tags"`
	ID   string   `json:"id"`
}

// fields the JSON round trip loses
type bHidden struct {
	Pub    int `json:"pub"`
	hidden string
	Skip   string `json:"-"`
	Opt    *int   `json:"opt,omitempty"`
}

type bNamedMap map[string]any

type bWithChan struct {
	A int
	C chan int
}

type bNested struct {
	bPlain
	Inner  *bUser         `json:"inner"`
	List   []bUser        `json:"list"`
	Counts map[string]int `json:"counts"`
	Any    any            `json:"any"`
}

type bBadM struct{ X int }

var errBadM = errors.New("bBadM refuses to be encoded")

func (bBadM) MarshalJSON() ([]byte, error) { return nil, errBadM }

// accepts numbers only, and not the odd ones
type bStrict struct{ X int }

func (s *bStrict) UnmarshalJSON(b []byte) error {
	if string(b) == "null" {
		return nil // by convention a no-op
	}
	n, err := strconv.Atoi(string(b))
	if err != nil {
		return fmt.Errorf("bStrict wants a number")
	}
	s.X = n
	if n%2 != 0 {
		return fmt.Errorf("bStrict wants an even number")
	}
	return nil
}

type bStringer interface{ String() string }

var (
	bindChans = []chan int{make(chan int), make(chan int, 1)}
	bindFuncs = []func() int{func() int { return 1 }, func() int { return 2 }}
)

var bindTypes = map[string]reflect.Type{
	"Result":      reflect.TypeOf(flyt.Result{}), // a flyt.Result is an ordinary value: stored, bound, wrapped in another Result
	"int":         reflect.TypeOf(int(0)),
	"uint8":       reflect.TypeOf(uint8(0)),
	"float64":     reflect.TypeOf(float64(0)),
	"complex128":  reflect.TypeOf(complex128(0)),
	"string":      reflect.TypeOf(""),
	"bool":        reflect.TypeOf(false),
	"map":         reflect.TypeOf(map[string]any(nil)),
	"slice":       reflect.TypeOf([]any(nil)),
	"ints":        reflect.TypeOf([]int(nil)),
	"strs":        reflect.TypeOf([]string(nil)),
	"bytes":       reflect.TypeOf([]byte(nil)),
	"arr":         reflect.TypeOf([2]int{}),
	"mapIntKey":   reflect.TypeOf(map[int]string(nil)),
	"mapStrInt":   reflect.TypeOf(map[string]int(nil)),
	"User":        reflect.TypeOf(bUser{}),
	"Plain":       reflect.TypeOf(bPlain{}),
	"UserCompat":  reflect.TypeOf(bUserCompat{}),
	"PlainCompat": reflect.TypeOf(bPlainCompat{}),
	"Clash":       reflect.TypeOf(bClash{}),
	"Hidden":      reflect.TypeOf(bHidden{}),
	"NamedMap":    reflect.TypeOf(bNamedMap(nil)),
	"WithChan":    reflect.TypeOf(bWithChan{}),
	"Nested":      reflect.TypeOf(bNested{}),
	"BadM":        reflect.TypeOf(bBadM{}),
	"Strict":      reflect.TypeOf(bStrict{}),
	"Time":        reflect.TypeOf(time.Time{}),
	"Raw":         reflect.TypeOf(json.RawMessage(nil)),
	"pUser":       reflect.TypeOf((*bUser)(nil)),
	"pInt":        reflect.TypeOf((*int)(nil)),
	"chan":        reflect.TypeOf((chan int)(nil)),
	"func":        reflect.TypeOf((func() int)(nil)),
	"any":         reflect.TypeOf((*any)(nil)).Elem(),
	"Stringer":    reflect.TypeOf((*bStringer)(nil)).Elem(),
}

// tags whose zero value passed as `dest` would not be a "non-pointer" (pointers) or would be the
// untyped nil (interfaces)
var bindNoNonPtr = map[string]bool{"pUser": true, "pInt": true, "any": true, "Stringer": true}

// ---------------------------------------------------------------- value builders

type bindBuilder struct {
	ty      string
	marshal string // "ok" | "err" | "?" (depends on the seed): what json.Marshal does with it
	build   func(n int) any
}

var bindInts = []int{0, 1, -1, 42, 255, 256, 300, -129, 1 << 31, 1<<53 + 1, math.MaxInt64, math.MinInt64}
var bindFloats = []float64{0, 1.5, -2.25, 3, 1e100, 1e-7, 255, 300.5, math.MaxFloat64, math.Copysign(0, -1),
	// integral values at and above 2^53 (the JSON text is the shortest decimal that round-trips, not the exact value), values
	// whose text uses an exponent (no integer destination takes that), -1 into unsigned destinations
	9007199254740992, 9007199254740994, 1e15, 1e20, 1e21, 123456789012345678, 18446744073709551615, 9223372036854775807, -9223372036854775808,
	-1, 4294967296, 65536, -129, 1 << 60, 1<<62 + 1<<10, -(1 << 60), 1e18}
var bindStrs = []string{"", "a", "hello <b>&  wörld", "123", "true", "null", "\xff\xfe bad utf8", "{\"a\":1}", "2021-01-02T03:04:05Z", "aGk="}

func bindTree(r *rng, depth int) any {
	k := r.intn(10)
	if depth <= 0 && k >= 6 {
		k = r.intn(6)
	}
	switch k {
	case 0:
		return nil
	case 1:
		return bindInts[r.intn(len(bindInts))]
	case 2:
		return bindFloats[r.intn(len(bindFloats))]
	case 3:
		return bindStrs[r.intn(len(bindStrs))]
	case 4:
		return r.chance(50)
	case 5:
		return int64(r.intn(1000)) - 500
	case 6, 7:
		m := map[string]any{}
		for i, n := 0, r.intn(4); i < n; i++ {
			m[[]string{"id", "name", "tags", "meta", "ID", "Name", "pub", "x", "a b", ""}[r.intn(10)]] = bindTree(r, depth-1)
		}
		return m
	case 8:
		l := []any{}
		for i, n := 0, r.intn(4); i < n; i++ {
			l = append(l, bindTree(r, depth-1))
		}
		return l
	default:
		return bUser{ID: r.intn(100), Name: "n" + strconv.Itoa(r.intn(100))}
	}
}

// a map shaped like a user (the common flyt use: map -> struct), with a few deviations
func bindUserMap(r *rng) map[string]any {
	m := map[string]any{"id": r.intn(1000), "name": "user" + strconv.Itoa(r.intn(100))}
	if r.chance(50) {
		m["tags"] = []any{"a", "b" + strconv.Itoa(r.intn(9))}
	}
	if r.chance(40) {
		m["meta"] = map[string]any{"k": r.intn(5), "deep": map[string]any{"z": []any{1, "two", 3.5, nil}}}
	}
	if r.chance(25) {
		m["extra"] = "x"
	}
	switch r.intn(8) {
	case 0:
		m["id"] = "not a number" // decode error in the middle of a struct
	case 1:
		m["name"] = 17
	case 2:
		m["id"] = 1.5 // float into an int field
	case 3:
		m["tags"] = "not a list"
	case 4:
		m["ID"] = r.intn(50) // case-insensitive duplicate key
	}
	return m
}

func bindUser(r *rng) bUser {
	u := bUser{ID: r.intn(1000), Name: "user" + strconv.Itoa(r.intn(100))}
	if r.chance(50) {
		u.Tags = []string{"t" + strconv.Itoa(r.intn(9)), "u"}
	}
	if r.chance(40) {
		u.Meta = map[string]any{"n": r.intn(9), "s": "v", "l": []any{1, 2}}
	}
	return u
}

var bindBuilders = map[string]bindBuilder{
	"int":   {"int", "ok", func(n int) any { return bindInts[n%len(bindInts)] }},
	"uint8": {"uint8", "ok", func(n int) any { return uint8(n * 37) }},
	"float": {"float64", "ok", func(n int) any { return bindFloats[n%len(bindFloats)] }},
	"nan":   {"float64", "err", func(n int) any { return []float64{math.NaN(), math.Inf(1), math.Inf(-1)}[n%3] }},
	"cplx":  {"complex128", "err", func(n int) any { return complex(float64(n), 1) }},
	"str":   {"string", "ok", func(n int) any { return bindStrs[n%len(bindStrs)] }},
	"bool":  {"bool", "ok", func(n int) any { return n%2 == 1 }},
	"map": {"map", "ok", func(n int) any {
		switch n {
		case 0:
			return map[string]any(nil)
		case 1:
			return map[string]any{}
		}
		r := newRng(uint64(n))
		m := map[string]any{}
		for i, k := 0, 1+r.intn(4); i < k; i++ {
			m["k"+strconv.Itoa(i)] = bindTree(r, 3)
		}
		return m
	}},
	"usermap": {"map", "ok", func(n int) any { return bindUserMap(newRng(uint64(n))) }},
	"plainmap": {"map", "ok", func(n int) any {
		r := newRng(uint64(n))
		m := map[string]any{"ID": r.intn(100), "Name": "p" + strconv.Itoa(n), "Score": bindFloats[r.intn(6)], "Active": r.chance(50)}
		if r.chance(30) {
			m["name"] = "lower-case duplicate"
		}
		if r.chance(20) {
			m["Active"] = "yes"
		}
		return m
	}},
	"mapchan": {"map", "err", func(n int) any {
		return map[string]any{"a": 1, "deep": map[string]any{"l": []any{1, bindChans[n%2]}}}
	}},
	"mapfunc": {"map", "err", func(n int) any { return map[string]any{"id": 1, "f": bindFuncs[n%2]} }},
	"mapnan":  {"map", "err", func(n int) any { return map[string]any{"id": n, "score": math.NaN()} }},
	"slice": {"slice", "ok", func(n int) any {
		switch n {
		case 0:
			return []any(nil)
		case 1:
			return []any{}
		}
		r := newRng(uint64(n))
		l := []any{}
		for i, k := 0, 1+r.intn(4); i < k; i++ {
			l = append(l, bindTree(r, 3))
		}
		return l
	}},
	"numslice": {"slice", "ok", func(n int) any { return []any{n, n + 1, float64(n) + 0.5} }},
	"ints": {"ints", "ok", func(n int) any {
		if n == 0 {
			return []int(nil)
		}
		return []int{n, -n, bindInts[n%len(bindInts)]}
	}},
	"strs":      {"strs", "ok", func(n int) any { return []string{"s" + strconv.Itoa(n), bindStrs[n%len(bindStrs)]} }},
	"bytes":     {"bytes", "ok", func(n int) any { return []byte("hi" + strconv.Itoa(n)) }},
	"arr":       {"arr", "ok", func(n int) any { return [2]int{n, -n} }},
	"mapintkey": {"mapIntKey", "ok", func(n int) any { return map[int]string{n: "a", n + 1: "b"} }},
	"mapstrint": {"mapStrInt", "ok", func(n int) any { return map[string]int{"id": n, "x": 2} }},
	"user":      {"User", "ok", func(n int) any { return bindUser(newRng(uint64(n))) }},
	"plain": {"Plain", "ok", func(n int) any {
		return bPlain{ID: n, Name: "p" + strconv.Itoa(n), Score: bindFloats[n%6], Active: n%2 == 0}
	}},
	"compat": {"UserCompat", "ok", func(n int) any { return bUserCompat{ID: int64(n), Name: "c", Extra: "e"} }},
	"clash":  {"Clash", "ok", func(n int) any { return bClash{Name: n, Tags: []string{"x"}, ID: "id" + strconv.Itoa(n)} }},
	"hidden": {"Hidden", "ok", func(n int) any {
		h := bHidden{Pub: n, hidden: "h" + strconv.Itoa(n), Skip: "s" + strconv.Itoa(n)}
		if n%2 == 1 {
			h.Opt = ip(n)
		}
		return h
	}},
	"namedmap": {"NamedMap", "ok", func(n int) any { return bNamedMap(bindUserMap(newRng(uint64(n)))) }},
	"withchan": {"WithChan", "err", func(n int) any { return bWithChan{A: n, C: bindChans[n%2]} }},
	"nested": {"Nested", "ok", func(n int) any {
		r := newRng(uint64(n))
		u := bindUser(r)
		v := bNested{bPlain: bPlain{ID: n, Name: "in"}, List: []bUser{bindUser(r), bindUser(r)}, Counts: map[string]int{"a": n}, Any: bindTree(r, 2)}
		if n%2 == 0 {
			v.Inner = &u
		}
		return v
	}},
	"badm":   {"BadM", "err", func(n int) any { return bBadM{X: n} }},
	"strict": {"Strict", "ok", func(n int) any { return bStrict{X: n} }},
	"time":   {"Time", "ok", func(n int) any { return time.Unix(int64(n)*1000003, 0).UTC() }},
	"raw": {"Raw", "?", func(n int) any {
		if n%3 == 2 {
			return json.RawMessage(`{"id":` + strconv.Itoa(n) + `,`) // not JSON: Marshal reports it
		}
		return json.RawMessage(`{"id":` + strconv.Itoa(n) + `,"name":"raw"}`)
	}},
	"puser": {"pUser", "ok", func(n int) any {
		if n == 0 {
			return (*bUser)(nil) // a typed nil pointer in a non-nil interface
		}
		u := bindUser(newRng(uint64(n)))
		return &u
	}},
	"pint": {"pInt", "ok", func(n int) any { return ip(n) }},
	"result": {"Result", "ok", func(n int) any {
		if n%3 == 2 {
			return flyt.NewErrorResult(errors.New("an error result as a value"))
		}
		return flyt.NewResult(map[string]any{"id": n, "name": "wrapped"})
	}},
	"chan": {"chan", "err", func(n int) any { return bindChans[n%2] }},
	"func": {"func", "err", func(n int) any { return bindFuncs[n%2] }},
}

func bindBuild(v *BindVal) any {
	if v == nil {
		return nil
	}
	b, ok := bindBuilders[v.B]
	if !ok {
		bindFatal("unknown value builder " + v.B)
	}
	return b.build(v.N)
}

func bindFatal(msg string) {
	fmt.Fprintln(os.Stderr, "bind family: generator / scenario error:", msg)
	os.Exit(2)
}

// a fresh destination from its descriptor
func bindMakeDest(d *BindDest) any {
	if d.Kind == "untyped" {
		return nil
	}
	t, ok := bindTypes[d.Ty]
	if !ok {
		bindFatal("unknown type tag " + d.Ty)
	}
	switch d.Kind {
	case "nilptr":
		return reflect.Zero(reflect.PointerTo(t)).Interface()
	case "nonptr":
		if bindNoNonPtr[d.Ty] {
			bindFatal("type " + d.Ty + " has no non-pointer form")
		}
		if d.Init != nil {
			return bindBuild(d.Init)
		}
		return reflect.Zero(t).Interface()
	case "ptr":
		p := reflect.New(t)
		if d.Init != nil {
			iv := reflect.ValueOf(bindBuild(d.Init))
			if !iv.IsValid() || !iv.Type().AssignableTo(t) {
				bindFatal("initial contents " + d.Init.B + " do not fit type " + d.Ty)
			}
			p.Elem().Set(iv)
		}
		return p.Interface()
	}
	bindFatal("unknown destination kind " + d.Kind)
	return nil
}

// contents of a destination (what a valid pointer points to; the destination itself otherwise)
func bindContents(kind string, dest any) reflect.Value {
	rv := reflect.ValueOf(dest)
	if kind == "ptr" {
		return rv.Elem()
	}
	return rv
}

// ---------------------------------------------------------------- deep equality

// bindDeepEq is reflect.DeepEqual with three differences needed here: NaN equals NaN, funcs are equal
// when they are the same function, and unexported fields are compared too (as DeepEqual does).
func bindDeepEq(a, b reflect.Value, depth int) bool {
	if !a.IsValid() || !b.IsValid() {
		return a.IsValid() == b.IsValid()
	}
	if a.Type() != b.Type() {
		return false
	}
	if depth > 200 {
		panic("bindDeepEq: too deep")
	}
	switch a.Kind() {
	case reflect.Bool:
		return a.Bool() == b.Bool()
	case reflect.Int, reflect.Int8, reflect.Int16, reflect.Int32, reflect.Int64:
		return a.Int() == b.Int()
	case reflect.Uint, reflect.Uint8, reflect.Uint16, reflect.Uint32, reflect.Uint64, reflect.Uintptr:
		return a.Uint() == b.Uint()
	case reflect.Float32, reflect.Float64:
		x, y := a.Float(), b.Float()
		return x == y || (x != x && y != y)
	case reflect.Complex64, reflect.Complex128:
		return a.Complex() == b.Complex()
	case reflect.String:
		return a.String() == b.String()
	case reflect.Func, reflect.Chan, reflect.UnsafePointer:
		return a.Pointer() == b.Pointer()
	case reflect.Pointer:
		if a.IsNil() || b.IsNil() {
			return a.IsNil() == b.IsNil()
		}
		if a.Pointer() == b.Pointer() {
			return true
		}
		return bindDeepEq(a.Elem(), b.Elem(), depth+1)
	case reflect.Interface:
		if a.IsNil() || b.IsNil() {
			return a.IsNil() == b.IsNil()
		}
		return bindDeepEq(a.Elem(), b.Elem(), depth+1)
	case reflect.Map:
		if a.IsNil() != b.IsNil() || a.Len() != b.Len() {
			return false
		}
		it := a.MapRange()
		for it.Next() {
			w := b.MapIndex(it.Key())
			if !w.IsValid() || !bindDeepEq(it.Value(), w, depth+1) {
				return false
			}
		}
		return true
	case reflect.Slice:
		if a.IsNil() != b.IsNil() || a.Len() != b.Len() {
			return false
		}
		for i := 0; i < a.Len(); i++ {
			if !bindDeepEq(a.Index(i), b.Index(i), depth+1) {
				return false
			}
		}
		return true
	case reflect.Array:
		for i := 0; i < a.Len(); i++ {
			if !bindDeepEq(a.Index(i), b.Index(i), depth+1) {
				return false
			}
		}
		return true
	case reflect.Struct:
		for i := 0; i < a.NumField(); i++ {
			if !bindDeepEq(a.Field(i), b.Field(i), depth+1) {
				return false
			}
		}
		return true
	}
	return false
}

func bindEq(a, b any) bool { return bindDeepEq(reflect.ValueOf(a), reflect.ValueOf(b), 0) }

// ---------------------------------------------------------------- running one scenario

type bindRef struct {
	cls  string // ok | marshal | unmarshal | na
	err  error
	dest any
}

// the reference: encoding/json into a fresh destination of the same type and initial contents
func bindReference(sc *BindScenario) bindRef {
	dest := bindMakeDest(&sc.Dest)
	if sc.Dest.Kind != "ptr" {
		return bindRef{cls: "na", dest: dest}
	}
	val := bindBuild(sc.Val)
	b, err := json.Marshal(val)
	if err != nil {
		return bindRef{cls: "marshal", err: err, dest: dest}
	}
	if err := json.Unmarshal(b, dest); err != nil {
		return bindRef{cls: "unmarshal", err: err, dest: dest}
	}
	return bindRef{cls: "ok", dest: dest}
}

func bindErrClass(err error) string {
	if err == nil {
		return "ok"
	}
	msg := err.Error()
	switch {
	case strings.Contains(msg, "not found in shared store"):
		return "key"
	case strings.Contains(msg, "cannot bind nil Result"):
		return "nilres"
	case strings.Contains(msg, "destination must be a non-nil pointer"):
		return "dest"
	case strings.HasPrefix(msg, "failed to marshal"):
		return "marshal"
	case strings.HasPrefix(msg, "failed to unmarshal"):
		return "unmarshal"
	}
	return "other"
}

// does err carry (errors.Unwrap chain, itself included) an error of ref's type and text
func bindWraps(err, ref error) bool {
	if err == nil || ref == nil {
		return false
	}
	for e, i := err, 0; e != nil && i < 20; e, i = errors.Unwrap(e), i+1 {
		if reflect.TypeOf(e) == reflect.TypeOf(ref) && e.Error() == ref.Error() {
			return true
		}
	}
	return false
}

type bindRan struct {
	cls string
	err error
}

// bindGuard runs one call into flyt with panic recovery and a watchdog.
func bindGuard(must bool, f func() error) bindRan {
	ch := make(chan bindRan, 1)
	go func() {
		defer func() {
			if p := recover(); p != nil {
				if s, ok := p.(string); ok && must &&
					(strings.HasPrefix(s, "SharedStore.MustBind failed: ") || strings.HasPrefix(s, "Result.MustBind failed: ")) {
					ch <- bindRan{cls: "mustpanic"}
					return
				}
				ch <- bindRan{cls: "panic"}
			}
		}()
		err := f()
		ch <- bindRan{cls: bindErrClass(err), err: err}
	}()
	t := time.NewTimer(10 * time.Second)
	defer t.Stop()
	select {
	case r := <-ch:
		return r
	case <-t.C:
		return bindRan{cls: "timeout"}
	}
}

const bindNoiseKey = "\x00noise"

// one of the four calls, on its own store / Result, value and destination
func bindOneCall(sc *BindScenario, ref *bindRef, api string) BindCall {
	val := bindBuild(sc.Val)
	snapshot := bindBuild(sc.Val) // independent copy: the "before" picture of the source
	dest := bindMakeDest(&sc.Dest)
	fresh := bindMakeDest(&sc.Dest)
	must := strings.HasPrefix(api, "must")

	var ran bindRan
	srcSame := false
	switch api {
	case "store", "mustStore":
		s := flyt.NewSharedStore()
		s.Set(bindNoiseKey, map[string]any{"n": 1})
		if sc.Pres != "missing" {
			if sc.Hist > 0 {
				tmp := bindMakeDest(&sc.Dest)
				prior := func() { bindGuard(false, func() error { return s.Bind(sc.Key, tmp) }) }
				other := map[string]any{"other": true, "id": 12345, "name": "a previous value"}
				switch sc.Hist {
				case 1:
					s.Set(sc.Key, other)
					prior()
					s.Set(sc.Key, val)
				case 2:
					s.Set(sc.Key, other)
					prior()
					s.Merge(map[string]any{sc.Key: val})
				case 3:
					s.Set(sc.Key, other)
					prior()
					s.Delete(sc.Key)
					s.Set(sc.Key, val)
				case 4:
					s.Set(sc.Key, other)
					prior()
					s.Clear()
					s.Set(bindNoiseKey, map[string]any{"n": 1})
					s.Set(sc.Key, val)
				default:
					s.Set(sc.Key, val)
					prior()
				}
			} else {
				s.Set(sc.Key, val)
			}
		}
		ran = bindGuard(must, func() error {
			if must {
				s.MustBind(sc.Key, dest)
				return nil
			}
			return s.Bind(sc.Key, dest)
		})
		if ran.cls != "timeout" {
			got, ok := s.Get(sc.Key)
			noise, nok := s.Get(bindNoiseKey)
			wantLen := 1
			if sc.Pres != "missing" {
				wantLen = 2
			}
			srcSame = ok == (sc.Pres != "missing") && bindEq(got, snapshot) && s.Len() == wantLen &&
				nok && bindEq(noise, map[string]any{"n": 1})
		}
	case "result", "mustResult":
		r := flyt.NewResult(val)
		ran = bindGuard(must, func() error {
			if must {
				r.MustBind(dest)
				return nil
			}
			return r.Bind(dest)
		})
		if ran.cls != "timeout" {
			srcSame = bindEq(r.Value(), snapshot) && bindEq(val, snapshot) && !r.IsError()
		}
	}
	out := BindCall{Cls: ran.cls, Same: srcSame}
	if ran.cls == "timeout" {
		return out // the call may still be running: do not look at its destination
	}
	after := bindContents(sc.Dest.Kind, dest)
	out.Init = bindDeepEq(after, bindContents(sc.Dest.Kind, fresh), 0)
	out.Ref = bindDeepEq(after, bindContents(sc.Dest.Kind, ref.dest), 0)
	if sc.Dest.Kind == "ptr" && sc.Pres == "val" {
		out.Src = bindDeepEq(after, reflect.ValueOf(snapshot), 0)
	}
	out.Wraps = !must && bindWraps(ran.err, ref.err)
	return out
}

func execBindScenario(sc *BindScenario) (obs *BindObs) {
	bindCheckScenario(sc)
	ref := bindReference(sc)
	return &BindObs{
		Ref:        ref.cls,
		Store:      bindOneCall(sc, &ref, "store"),
		Result:     bindOneCall(sc, &ref, "result"),
		MustStore:  bindOneCall(sc, &ref, "mustStore"),
		MustResult: bindOneCall(sc, &ref, "mustResult"),
	}
}

// the declared type tags must be what reflect sees (a wrong tag is a harness bug, never flyt's)
func bindCheckScenario(sc *BindScenario) {
	if (sc.Pres == "val") != (sc.Val != nil) {
		bindFatal("presence and value disagree")
	}
	if sc.Val != nil {
		b, ok := bindBuilders[sc.Val.B]
		if !ok {
			bindFatal("unknown value builder " + sc.Val.B)
		}
		if b.ty != sc.Vty || reflect.TypeOf(b.build(sc.Val.N)) != bindTypes[b.ty] {
			bindFatal("value " + sc.Val.B + " is not of its declared type " + sc.Vty)
		}
	}
	if sc.Dest.Kind != "untyped" {
		t, ok := bindTypes[sc.Dest.Ty]
		if !ok {
			bindFatal("unknown type tag " + sc.Dest.Ty)
		}
		d := bindMakeDest(&sc.Dest)
		want := t
		if sc.Dest.Kind != "nonptr" {
			want = reflect.PointerTo(t)
		}
		if reflect.TypeOf(d) != want {
			bindFatal("destination is not of its declared type " + sc.Dest.Ty)
		}
		if sc.Dest.Kind == "nonptr" && reflect.TypeOf(d).Kind() == reflect.Pointer {
			bindFatal("non-pointer destination is a pointer")
		}
	}
}

// ---------------------------------------------------------------- generators

func bindTypeTags() []string {
	var l []string
	for k := range bindTypes {
		l = append(l, k)
	}
	sort.Strings(l)
	return l
}

func bindBuilderNames() []string {
	var l []string
	for k := range bindBuilders {
		l = append(l, k)
	}
	sort.Strings(l)
	return l
}

// builders producing values of a type tag
func bindBuildersOf(ty string) []string {
	var l []string
	for _, k := range bindBuilderNames() {
		if bindBuilders[k].ty == ty {
			l = append(l, k)
		}
	}
	return l
}

func bindExp(b string, same bool, kind string) string {
	// only what the generator knows for sure: an unencodable value into another type is a marshal error
	if kind == "ptr" && !same && bindBuilders[b].marshal == "err" {
		return "marshal"
	}
	if kind != "ptr" {
		return "na"
	}
	return ""
}

func genBind(r *rng, thorough bool, emit func(BindScenario)) {
	tags := bindTypeTags()
	names := bindBuilderNames()
	keys := []string{"k", "", "user.profile", "ключ"}
	seedsPer := 3
	if thorough {
		seedsPer = 12
	}
	mk := func(pres string, v *BindVal, d BindDest) {
		sc := BindScenario{Pres: pres, Val: v, Key: keys[r.intn(len(keys))], Dest: d}
		same := false
		if v != nil {
			sc.Vty = bindBuilders[v.B].ty
			same = d.Kind != "untyped" && sc.Vty == d.Ty
			sc.Exp = bindExp(v.B, same, d.Kind)
		} else if d.Kind != "ptr" {
			sc.Exp = "na"
		} else {
			sc.Exp = "ok" // marshal(nil) = null decodes into everything
		}
		if pres != "missing" && r.chance(35) {
			sc.Hist = 1 + r.intn(5)
		}
		emit(sc)
	}
	seed := func(i int) int {
		if i < 2 {
			return i // the builders' boundary values (nil / empty / zero)
		}
		return 2 + r.intn(100000)
	}

	// 1. every value builder x every destination element type (valid pointer, zero contents): the full
	//    same-type / compatible / incompatible matrix, a few seeds per cell
	for _, b := range names {
		for _, ty := range tags {
			for i := 0; i < seedsPer; i++ {
				if !thorough && i >= 2 && bindBuilders[b].ty != ty && r.chance(60) {
					continue
				}
				mk("val", &BindVal{B: b, N: seed(i)}, BindDest{Kind: "ptr", Ty: ty})
			}
		}
	}
	// 1a. every number of the float / int tables into every numeric destination (and `any`, `*int`): the JSON TEXT of the number
	//     decides (shortest decimal of a float, "-0", exponent form), not its value
	for _, ty := range []string{"int", "uint8", "float64", "any", "pInt", "mapStrInt", "ints"} {
		for i := range bindFloats {
			mk("val", &BindVal{B: "float", N: i}, BindDest{Kind: "ptr", Ty: ty})
		}
		for i := range bindInts {
			mk("val", &BindVal{B: "int", N: i}, BindDest{Kind: "ptr", Ty: ty})
		}
	}
	// 2. every value builder x the hostile destinations: untyped nil, typed nil pointer and non-pointer of
	//    the value's OWN type and of other types
	for _, b := range names {
		own := bindBuilders[b].ty
		for i := 0; i < 2; i++ {
			v := &BindVal{B: b, N: seed(i + 1)}
			mk("val", v, BindDest{Kind: "untyped"})
			mk("val", v, BindDest{Kind: "nilptr", Ty: own})
			if !bindNoNonPtr[own] {
				mk("val", v, BindDest{Kind: "nonptr", Ty: own})
				mk("val", v, BindDest{Kind: "nonptr", Ty: own, Init: &BindVal{B: b, N: seed(2)}})
			}
			for _, ty := range tags {
				if ty == own || (!thorough && r.chance(70)) {
					continue
				}
				mk("val", v, BindDest{Kind: "nilptr", Ty: ty})
				if !bindNoNonPtr[ty] {
					mk("val", v, BindDest{Kind: "nonptr", Ty: ty})
				}
			}
		}
	}
	// 3. destinations that already hold something (json.Unmarshal merges into structs and maps, reuses
	//    slices, decodes through a pointer held by an interface)
	for _, b := range names {
		for _, ty := range tags {
			inits := bindBuildersOf(ty)
			if ty == "any" {
				inits = []string{"puser", "pint", "user", "map", "int", "str", "slice"}
			}
			if len(inits) == 0 {
				continue
			}
			reps := 1
			if thorough {
				reps = 4
			}
			for i := 0; i < reps; i++ {
				if !thorough && bindBuilders[b].ty != ty && r.chance(50) {
					continue
				}
				ib := inits[r.intn(len(inits))]
				mk("val", &BindVal{B: b, N: seed(2)}, BindDest{Kind: "ptr", Ty: ty, Init: &BindVal{B: ib, N: seed(r.intn(4))}})
			}
		}
	}
	// 4. no value: missing key / stored nil (nil Result on the Result side) x every destination
	for _, pres := range []string{"missing", "nil"} {
		mk(pres, nil, BindDest{Kind: "untyped"})
		for _, ty := range tags {
			mk(pres, nil, BindDest{Kind: "ptr", Ty: ty})
			mk(pres, nil, BindDest{Kind: "nilptr", Ty: ty})
			if !bindNoNonPtr[ty] {
				mk(pres, nil, BindDest{Kind: "nonptr", Ty: ty})
			}
			for _, ib := range bindBuildersOf(ty) {
				mk(pres, nil, BindDest{Kind: "ptr", Ty: ty, Init: &BindVal{B: ib, N: seed(2)}})
			}
		}
		mk(pres, nil, BindDest{Kind: "ptr", Ty: "any", Init: &BindVal{B: "puser", N: 5}})
	}
	// 5. the everyday use in bulk: user-shaped maps and structs into struct / map / interface destinations
	bulk := 1500
	if thorough {
		bulk = 80000
	}
	srcs := []string{"usermap", "usermap", "plainmap", "user", "plain", "namedmap", "nested", "hidden", "map", "slice", "puser", "raw"}
	dsts := []string{"User", "User", "UserCompat", "Plain", "PlainCompat", "Clash", "any", "NamedMap", "map", "Hidden", "Nested", "pUser", "mapStrInt", "Strict", "slice"}
	for i := 0; i < bulk; i++ {
		b := srcs[r.intn(len(srcs))]
		ty := dsts[r.intn(len(dsts))]
		d := BindDest{Kind: "ptr", Ty: ty}
		if r.chance(25) {
			if inits := bindBuildersOf(ty); len(inits) > 0 {
				d.Init = &BindVal{B: inits[r.intn(len(inits))], N: 2 + r.intn(100000)}
			}
		}
		mk("val", &BindVal{B: b, N: 2 + r.intn(1000000)}, d)
	}
}
