package main

// Family "value" (property C15): value codes <-> real Go values.
//
// The Lean driver (lean/Driver/ValueFam.lean) parses the same codes into its value universe:
//
//	T ::= int | int8 | … | uintptr | float32 | float64 | complex64 | complex128 | string | bool | any
//	    | P(T) | S(T) | A<n>(T) | M(T,T) | C(T) | F<k> | R(T,…) | @Name
//	V ::= nil | (T)payload
//	payload ::= -?digits | #bits | #re#im | "chars" | t | f | ~ | &id | & | [V,…] | {V,…}
//
// `@error` is the interface type error (a slot type only, like `any`). `@Result` is flyt.Result itself,
// used as an ordinary value: `(@Result){V,E}` is the struct Result{value: V, err: E}. Its fields are not
// exported, so it is built through the public constructors — flyt.NewResult(V) for `{V,nil}`,
// flyt.NewErrorResult(E) for `{nil,E}` (nothing else is constructible) — and read back field by field
// (unsafe) when the implementation hands one out, e.g. inside the output of ToSlice.
//
// Types are materialised with reflect (StructOf / ArrayOf / SliceOf / MapOf / ChanOf / PointerTo), so
// arbitrary nested types can be generated; named types come from the table below (it must match
// `namedTable` in the driver). Pointers, maps and channels carry an identity number: inside one
// scenario the same (type, id) is the same object.

import (
	"encoding/json"
	"errors"
	"fmt"
	"math"
	"reflect"
	"strconv"
	"strings"
	"unsafe"

	"github.com/mark3labs/flyt"
)

type (
	MyInt     int
	MyInt8    int8
	MyUint16  uint16
	MyFloat   float64
	MyFloat32 float32
	MyString  string
	MyBool    bool
	MyAnys    []any
	MyInts    []int
	MyStrs    []string
	MyMap     map[string]any
	MyRec     struct {
		F0 int
		F1 string
	}
	MyNC struct {
		F0 int
		F1 []int
	}
	MyArr  [2]int
	MyFunc func()
	MyPtr  *int
	MyChan chan int

	MyInt16      int16
	MyInt32      int32
	MyInt64      int64
	MyUint       uint
	MyUint8      uint8
	MyUint32     uint32
	MyUint64     uint64
	MyUintptr    uintptr
	MyComplex64  complex64
	MyComplex128 complex128

	// error types: a comparable struct, a non-comparable struct, a string
	MyErr    struct{ Code int }
	MyNCErr  struct{ Tags []string }
	MyStrErr string

	// a defined type with flyt.Result as its underlying type: same struct, different type, no methods
	MyRes flyt.Result
)

func (e MyErr) Error() string    { return "MyErr" }
func (e MyNCErr) Error() string  { return "MyNCErr" }
func (e MyStrErr) Error() string { return string(e) }

var (
	anyType     = reflect.TypeOf((*any)(nil)).Elem()
	intType     = reflect.TypeOf(int(0))
	float32Type = reflect.TypeOf(float32(0))
	float64Type = reflect.TypeOf(float64(0))
	errorType   = reflect.TypeOf((*error)(nil)).Elem()
	resultType  = reflect.TypeOf(flyt.Result{})
	// errors.errorString (what errors.New returns a pointer to); only ever used behind a pointer
	errStrType = reflect.TypeOf(errors.New("")).Elem()

	basicTypes = map[string]reflect.Type{
		"int": intType, "int8": reflect.TypeOf(int8(0)), "int16": reflect.TypeOf(int16(0)),
		"int32": reflect.TypeOf(int32(0)), "int64": reflect.TypeOf(int64(0)),
		"uint": reflect.TypeOf(uint(0)), "uint8": reflect.TypeOf(uint8(0)), "uint16": reflect.TypeOf(uint16(0)),
		"uint32": reflect.TypeOf(uint32(0)), "uint64": reflect.TypeOf(uint64(0)), "uintptr": reflect.TypeOf(uintptr(0)),
		"float32": float32Type, "float64": float64Type,
		"complex64": reflect.TypeOf(complex64(0)), "complex128": reflect.TypeOf(complex128(0)),
		"string": reflect.TypeOf(""), "bool": reflect.TypeOf(false),
	}
	namedTypes = map[string]reflect.Type{
		"MyInt": reflect.TypeOf(MyInt(0)), "MyInt8": reflect.TypeOf(MyInt8(0)), "MyUint16": reflect.TypeOf(MyUint16(0)),
		"MyFloat": reflect.TypeOf(MyFloat(0)), "MyFloat32": reflect.TypeOf(MyFloat32(0)),
		"MyString": reflect.TypeOf(MyString("")), "MyBool": reflect.TypeOf(MyBool(false)),
		"MyAnys": reflect.TypeOf(MyAnys(nil)), "MyInts": reflect.TypeOf(MyInts(nil)), "MyStrs": reflect.TypeOf(MyStrs(nil)),
		"MyMap": reflect.TypeOf(MyMap(nil)), "MyRec": reflect.TypeOf(MyRec{}), "MyNC": reflect.TypeOf(MyNC{}),
		"MyArr": reflect.TypeOf(MyArr{}), "MyFunc": reflect.TypeOf(MyFunc(nil)), "MyPtr": reflect.TypeOf(MyPtr(nil)),
		"MyChan":  reflect.TypeOf(MyChan(nil)),
		"MyInt16": reflect.TypeOf(MyInt16(0)), "MyInt32": reflect.TypeOf(MyInt32(0)), "MyInt64": reflect.TypeOf(MyInt64(0)),
		"MyUint": reflect.TypeOf(MyUint(0)), "MyUint8": reflect.TypeOf(MyUint8(0)), "MyUint32": reflect.TypeOf(MyUint32(0)),
		"MyUint64": reflect.TypeOf(MyUint64(0)), "MyUintptr": reflect.TypeOf(MyUintptr(0)),
		"MyComplex64": reflect.TypeOf(MyComplex64(0)), "MyComplex128": reflect.TypeOf(MyComplex128(0)),
		"error": errorType, "Result": resultType, "ErrStr": errStrType,
		"MyErr": reflect.TypeOf(MyErr{}), "MyNCErr": reflect.TypeOf(MyNCErr{}), "MyStrErr": reflect.TypeOf(MyStrErr("")),
		"MyRes": reflect.TypeOf(MyRes{}),
		// a string-kinded type of the standard library that LOOKS like a number (encoding/json.Number): not a documented source type
		"JNumber": reflect.TypeOf(json.Number("")),
	}
	// underlying type codes of the named types (used by the generator only)
	namedUnder = map[string]string{
		"MyInt": "int", "MyInt8": "int8", "MyUint16": "uint16", "MyFloat": "float64", "MyFloat32": "float32",
		"MyString": "string", "MyBool": "bool", "MyAnys": "S(any)", "MyInts": "S(int)", "MyStrs": "S(string)",
		"MyMap": "M(string,any)", "MyRec": "R(int,string)", "MyNC": "R(int,S(int))", "MyArr": "A2(int)",
		"MyFunc": "F0", "MyPtr": "P(int)", "MyChan": "C(int)",
		"MyInt16": "int16", "MyInt32": "int32", "MyInt64": "int64", "MyUint": "uint", "MyUint8": "uint8", "MyUint32": "uint32",
		"MyUint64": "uint64", "MyUintptr": "uintptr", "MyComplex64": "complex64", "MyComplex128": "complex128",
		"error": "any", "Result": "R(any,@error)", "ErrStr": "R(string)",
		"MyErr": "R(int)", "MyNCErr": "R(S(string))", "MyStrErr": "string", "MyRes": "R(any,@error)", "JNumber": "string",
	}
	funcSigs = []reflect.Type{
		reflect.TypeOf(func() {}),
		reflect.TypeOf(func(int) string { return "" }),
		reflect.TypeOf(func(...any) error { return nil }),
	}
	namedRev = map[reflect.Type]string{}
	basicRev = map[reflect.Type]string{}
)

func init() {
	for n, t := range namedTypes {
		namedRev[t] = n
	}
	for n, t := range basicTypes {
		basicRev[t] = n
	}
}

// ---------------------------------------------------------------- type codes

func typeCodeOf(t reflect.Type) string {
	if t == anyType {
		return "any"
	}
	if n, ok := namedRev[t]; ok {
		return "@" + n
	}
	if n, ok := basicRev[t]; ok {
		return n
	}
	switch t.Kind() {
	case reflect.Ptr:
		return "P(" + typeCodeOf(t.Elem()) + ")"
	case reflect.Slice:
		return "S(" + typeCodeOf(t.Elem()) + ")"
	case reflect.Array:
		return "A" + strconv.Itoa(t.Len()) + "(" + typeCodeOf(t.Elem()) + ")"
	case reflect.Map:
		return "M(" + typeCodeOf(t.Key()) + "," + typeCodeOf(t.Elem()) + ")"
	case reflect.Chan:
		return "C(" + typeCodeOf(t.Elem()) + ")"
	case reflect.Func:
		for i, s := range funcSigs {
			if s == t {
				return "F" + strconv.Itoa(i)
			}
		}
	case reflect.Struct:
		parts := make([]string, t.NumField())
		for i := range parts {
			parts[i] = typeCodeOf(t.Field(i).Type)
		}
		return "R(" + strings.Join(parts, ",") + ")"
	}
	return "?" + t.String() // not in the universe: the driver answers badop
}

type codeParser struct {
	s   string
	pos int
	ctx *valCtx
}

func (p *codeParser) fail(msg string) {
	panic(fmt.Sprintf("value code %q at %d: %s", p.s, p.pos, msg))
}

func (p *codeParser) peek() byte {
	if p.pos < len(p.s) {
		return p.s[p.pos]
	}
	return 0
}

func (p *codeParser) expect(c byte) {
	if p.peek() != c {
		p.fail("expected " + string(c))
	}
	p.pos++
}

func (p *codeParser) ident() string {
	i := p.pos
	for i < len(p.s) {
		c := p.s[i]
		if c == '@' || (c >= '0' && c <= '9') || (c >= 'a' && c <= 'z') || (c >= 'A' && c <= 'Z') {
			i++
		} else {
			break
		}
	}
	id := p.s[p.pos:i]
	p.pos = i
	return id
}

func (p *codeParser) digits() string {
	i := p.pos
	for i < len(p.s) && p.s[i] >= '0' && p.s[i] <= '9' {
		i++
	}
	d := p.s[p.pos:i]
	p.pos = i
	return d
}

func (p *codeParser) typ() reflect.Type {
	id := p.ident()
	if id == "" {
		p.fail("type expected")
	}
	if id == "any" {
		return anyType
	}
	if id[0] == '@' {
		t, ok := namedTypes[id[1:]]
		if !ok {
			p.fail("unknown named type " + id)
		}
		return t
	}
	if t, ok := basicTypes[id]; ok {
		return t
	}
	switch {
	case id == "P":
		p.expect('(')
		t := p.typ()
		p.expect(')')
		return reflect.PointerTo(t)
	case id == "S":
		p.expect('(')
		t := p.typ()
		p.expect(')')
		return reflect.SliceOf(t)
	case id == "C":
		p.expect('(')
		t := p.typ()
		p.expect(')')
		return reflect.ChanOf(reflect.BothDir, t)
	case id == "M":
		p.expect('(')
		k := p.typ()
		p.expect(',')
		v := p.typ()
		p.expect(')')
		return reflect.MapOf(k, v)
	case id == "R":
		p.expect('(')
		var fields []reflect.StructField
		for p.peek() != ')' {
			if len(fields) > 0 {
				p.expect(',')
			}
			fields = append(fields, reflect.StructField{Name: "F" + strconv.Itoa(len(fields)), Type: p.typ()})
		}
		p.expect(')')
		return reflect.StructOf(fields)
	case id[0] == 'A':
		n, err := strconv.Atoi(id[1:])
		if err != nil {
			p.fail("bad array type " + id)
		}
		p.expect('(')
		t := p.typ()
		p.expect(')')
		return reflect.ArrayOf(n, t)
	case id[0] == 'F':
		n, err := strconv.Atoi(id[1:])
		if err != nil || n >= len(funcSigs) {
			p.fail("bad func type " + id)
		}
		return funcSigs[n]
	}
	p.fail("unknown type " + id)
	return nil
}

// ---------------------------------------------------------------- values

// valCtx holds the identity-bearing objects of one scenario.
type valCtx struct {
	refs map[string]reflect.Value // typeCode#id -> pointer / map / chan
	ids  map[uintptr]int
}

func newValCtx() *valCtx {
	return &valCtx{refs: map[string]reflect.Value{}, ids: map[uintptr]int{}}
}

func (c *valCtx) ref(t reflect.Type, id int) reflect.Value {
	key := typeCodeOf(t) + "#" + strconv.Itoa(id)
	if v, ok := c.refs[key]; ok {
		return v
	}
	var v reflect.Value
	switch t.Kind() {
	case reflect.Ptr:
		v = reflect.New(t.Elem())
		if v.Type() != t {
			v = v.Convert(t)
		}
	case reflect.Map:
		v = reflect.MakeMapWithSize(t, 1)
		if t.Key().Kind() == reflect.String && t.Elem() == anyType {
			v.SetMapIndex(reflect.ValueOf("id").Convert(t.Key()), reflect.ValueOf(id))
		}
		if k := t.Key().Kind(); k == reflect.Float64 || k == reflect.Float32 {
			// a map with NaN keys: two entries that no lookup will ever find again
			nan := reflect.ValueOf(math.NaN()).Convert(t.Key())
			v.SetMapIndex(nan, reflect.Zero(t.Elem()))
			v.SetMapIndex(nan, reflect.Zero(t.Elem()))
		}
	case reflect.Chan:
		v = reflect.MakeChan(t, 1)
	default:
		panic("ref of kind " + t.Kind().String())
	}
	c.refs[key] = v
	c.ids[v.Pointer()] = id
	return v
}

// value parses one V; an invalid reflect.Value stands for the nil interface.
func (p *codeParser) value() reflect.Value {
	if strings.HasPrefix(p.s[p.pos:], "nil") {
		p.pos += 3
		return reflect.Value{}
	}
	p.expect('(')
	t := p.typ()
	p.expect(')')
	k := t.Kind()
	switch c := p.peek(); c {
	case '#':
		p.pos++
		a, err := strconv.ParseUint(p.digits(), 10, 64)
		if err != nil {
			p.fail("bad bits")
		}
		if p.peek() == '#' {
			p.pos++
			b, err := strconv.ParseUint(p.digits(), 10, 64)
			if err != nil {
				p.fail("bad bits")
			}
			switch k {
			case reflect.Complex64:
				return reflect.ValueOf(complex(math.Float32frombits(uint32(a)), math.Float32frombits(uint32(b)))).Convert(t)
			case reflect.Complex128:
				return reflect.ValueOf(complex(math.Float64frombits(a), math.Float64frombits(b))).Convert(t)
			}
			p.fail("complex payload for " + t.String())
		}
		switch k {
		case reflect.Float32:
			return reflect.ValueOf(math.Float32frombits(uint32(a))).Convert(t)
		case reflect.Float64:
			return reflect.ValueOf(math.Float64frombits(a)).Convert(t)
		}
		p.fail("float payload for " + t.String())
	case '"':
		p.pos++
		i := strings.IndexByte(p.s[p.pos:], '"')
		if i < 0 || k != reflect.String {
			p.fail("bad string")
		}
		s := p.s[p.pos : p.pos+i]
		p.pos += i + 1
		return reflect.ValueOf(s).Convert(t)
	case 't', 'f':
		p.pos++
		if k != reflect.Bool {
			p.fail("bool payload for " + t.String())
		}
		return reflect.ValueOf(c == 't').Convert(t)
	case '~':
		p.pos++
		switch k {
		case reflect.Ptr, reflect.Map, reflect.Chan, reflect.Func, reflect.Slice:
			return reflect.Zero(t)
		}
		p.fail("nil payload for " + t.String())
	case '&':
		p.pos++
		d := p.digits()
		if d == "" {
			if k != reflect.Func {
				p.fail("func payload for " + t.String())
			}
			return reflect.MakeFunc(t, func([]reflect.Value) []reflect.Value {
				out := make([]reflect.Value, t.NumOut())
				for i := range out {
					out[i] = reflect.Zero(t.Out(i))
				}
				return out
			})
		}
		id, _ := strconv.Atoi(d)
		switch k {
		case reflect.Ptr, reflect.Map, reflect.Chan:
			return p.ctx.ref(t, id)
		}
		p.fail("reference payload for " + t.String())
	case '[':
		p.pos++
		var elems []reflect.Value
		for p.peek() != ']' {
			if len(elems) > 0 {
				p.expect(',')
			}
			elems = append(elems, p.value())
		}
		p.pos++
		var dst reflect.Value
		switch k {
		case reflect.Slice:
			dst = reflect.MakeSlice(t, len(elems), len(elems))
		case reflect.Array:
			if t.Len() != len(elems) {
				p.fail("array length")
			}
			dst = reflect.New(t).Elem()
		default:
			p.fail("list payload for " + t.String())
		}
		for i, e := range elems {
			setSlot(dst.Index(i), e)
		}
		return dst
	case '{':
		p.pos++
		if k != reflect.Struct {
			p.fail("struct payload for " + t.String())
		}
		if t == resultType || t.ConvertibleTo(resultType) && t.Name() == "MyRes" {
			return p.resultPayload().Convert(t)
		}
		dst := reflect.New(t).Elem()
		n := 0
		for p.peek() != '}' {
			if n > 0 {
				p.expect(',')
			}
			if n >= t.NumField() {
				p.fail("too many fields")
			}
			setSlot(dst.Field(n), p.value())
			n++
		}
		p.pos++
		if n != t.NumField() {
			p.fail("too few fields")
		}
		return dst
	default:
		neg := false
		if c == '-' {
			neg = true
			p.pos++
		}
		d := p.digits()
		if d == "" {
			p.fail("payload expected")
		}
		dst := reflect.New(t).Elem()
		switch k {
		case reflect.Int, reflect.Int8, reflect.Int16, reflect.Int32, reflect.Int64:
			if neg {
				d = "-" + d
			}
			n, err := strconv.ParseInt(d, 10, 64)
			if err != nil || dst.OverflowInt(n) {
				p.fail("integer out of range")
			}
			dst.SetInt(n)
		case reflect.Uint, reflect.Uint8, reflect.Uint16, reflect.Uint32, reflect.Uint64, reflect.Uintptr:
			n, err := strconv.ParseUint(d, 10, 64)
			if err != nil || neg || dst.OverflowUint(n) {
				p.fail("integer out of range")
			}
			dst.SetUint(n)
		default:
			p.fail("integer payload for " + t.String())
		}
		return dst
	}
	return reflect.Value{}
}

// resultPayload parses `V,E}` and builds the flyt.Result through the public constructors.
func (p *codeParser) resultPayload() reflect.Value {
	val := p.value()
	p.expect(',')
	errV := p.value()
	p.expect('}')
	switch {
	case !errV.IsValid():
		var x any
		if val.IsValid() {
			x = val.Interface()
		}
		return reflect.ValueOf(flyt.NewResult(x))
	case !val.IsValid():
		e, ok := errV.Interface().(error)
		if !ok {
			p.fail("err field of a Result: " + errV.Type().String() + " is not an error")
		}
		return reflect.ValueOf(flyt.NewErrorResult(e))
	}
	p.fail("a Result with both a value and an error cannot be constructed")
	return reflect.Value{}
}

// resultFields reads the two unexported fields of a flyt.Result (value any, err error) as ordinary,
// readable reflect values. ok=false if the struct no longer looks like that.
func resultFields(rv reflect.Value) (val, err reflect.Value, ok bool) {
	t := rv.Type()
	if t.NumField() != 2 || t.Field(0).Type != anyType || t.Field(1).Type != errorType {
		return val, err, false
	}
	c := reflect.New(t).Elem()
	c.Set(rv)
	val = reflect.NewAt(anyType, unsafe.Pointer(c.Field(0).UnsafeAddr())).Elem()
	err = reflect.NewAt(errorType, unsafe.Pointer(c.Field(1).UnsafeAddr())).Elem()
	return val, err, true
}

func setSlot(dst reflect.Value, v reflect.Value) {
	if !v.IsValid() {
		if dst.Kind() != reflect.Interface {
			panic("nil in a slot of type " + dst.Type().String())
		}
		dst.Set(reflect.Zero(dst.Type()))
		return
	}
	dst.Set(v)
}

// decodeValue: code -> the Go value as an `any`
func decodeValue(code string, ctx *valCtx) any {
	p := &codeParser{s: code, ctx: ctx}
	v := p.value()
	if p.pos != len(code) {
		p.fail("trailing input")
	}
	if !v.IsValid() {
		return nil
	}
	return v.Interface()
}

// encodeValue: Go value -> code (the inverse of decodeValue for values of the universe)
func encodeValue(v any, ctx *valCtx) string {
	if v == nil {
		return "nil"
	}
	return encodeRV(reflect.ValueOf(v), ctx)
}

func encodeRV(rv reflect.Value, ctx *valCtx) string {
	if rv.Kind() == reflect.Interface {
		if rv.IsNil() {
			return "nil"
		}
		return encodeRV(rv.Elem(), ctx)
	}
	t := rv.Type()
	pre := "(" + typeCodeOf(t) + ")"
	switch rv.Kind() {
	case reflect.Int, reflect.Int8, reflect.Int16, reflect.Int32, reflect.Int64:
		return pre + strconv.FormatInt(rv.Int(), 10)
	case reflect.Uint, reflect.Uint8, reflect.Uint16, reflect.Uint32, reflect.Uint64, reflect.Uintptr:
		return pre + strconv.FormatUint(rv.Uint(), 10)
	case reflect.Float32:
		return pre + "#" + strconv.FormatUint(uint64(math.Float32bits(rv.Convert(float32Type).Interface().(float32))), 10)
	case reflect.Float64:
		return pre + "#" + strconv.FormatUint(math.Float64bits(rv.Float()), 10)
	case reflect.Complex64:
		c := complex64(rv.Complex())
		return pre + "#" + strconv.FormatUint(uint64(math.Float32bits(real(c))), 10) + "#" + strconv.FormatUint(uint64(math.Float32bits(imag(c))), 10)
	case reflect.Complex128:
		c := rv.Complex()
		return pre + "#" + strconv.FormatUint(math.Float64bits(real(c)), 10) + "#" + strconv.FormatUint(math.Float64bits(imag(c)), 10)
	case reflect.String:
		return pre + "\"" + rv.String() + "\""
	case reflect.Bool:
		if rv.Bool() {
			return pre + "t"
		}
		return pre + "f"
	case reflect.Ptr, reflect.Map, reflect.Chan:
		if rv.IsNil() {
			return pre + "~"
		}
		id, ok := ctx.ids[rv.Pointer()]
		if !ok {
			id = 9999
		}
		return pre + "&" + strconv.Itoa(id)
	case reflect.Func:
		if rv.IsNil() {
			return pre + "~"
		}
		return pre + "&"
	case reflect.Slice:
		if rv.IsNil() {
			return pre + "~"
		}
		return pre + "[" + encodeElems(rv, rv.Len(), ctx) + "]"
	case reflect.Array:
		return pre + "[" + encodeElems(rv, rv.Len(), ctx) + "]"
	case reflect.Struct:
		if t == resultType || t.ConvertibleTo(resultType) && t.Name() == "MyRes" {
			val, err, ok := resultFields(rv)
			if !ok {
				return pre + "?"
			}
			return pre + "{" + encodeRV(val, ctx) + "," + encodeRV(err, ctx) + "}"
		}
		parts := make([]string, rv.NumField())
		for i := range parts {
			parts[i] = encodeRV(rv.Field(i), ctx)
		}
		return pre + "{" + strings.Join(parts, ",") + "}"
	}
	return pre + "?"
}

func encodeElems(rv reflect.Value, n int, ctx *valCtx) string {
	parts := make([]string, n)
	for i := range parts {
		parts[i] = encodeRV(rv.Index(i), ctx)
	}
	return strings.Join(parts, ",")
}
