package main

// Free-running (ungated) stress runs: search support for the concurrent properties. They do not decide
// anything by themselves; they look for a concrete failing run (a lost / duplicated task, a Wait that is
// not a barrier, a leaked worker, more than c items in flight, a slot holding another item's outcome) after
// — or independently of — a broken proof obligation or correspondence. Built with -race in the thorough tier.
//
//	harness stress pool|batch <tier> <seed>   → one JSON line {"ok":bool,"runs":n,"witness":…}; exit 1 on a witness

import (
	"context"
	"encoding/json"
	"fmt"
	"os"
	"runtime"
	"strconv"
	"sync"
	"sync/atomic"
	"time"

	"github.com/mark3labs/flyt"
)

type stressResult struct {
	OK      bool   `json:"ok"`
	Kind    string `json:"kind"`
	Runs    int    `json:"runs"`
	Witness any    `json:"witness,omitempty"`
}

func withTimeout(d time.Duration, f func()) bool {
	done := make(chan struct{})
	go func() { f(); close(done) }()
	select {
	case <-done:
		return true
	case <-time.After(d):
		return false
	}
}

func stressPool(r *rng, thorough bool) stressResult {
	runs := 2500
	if thorough {
		runs = 40000
	}
	buf := make([]byte, 4<<20)
	for it := 0; it < runs; it++ {
		w := r.intn(18) - 1
		if it%3 == 0 {
			w = 2 + r.intn(3)
		}
		tasks := r.intn(60)
		if it%50 == 0 {
			tasks = 200 + r.intn(300)
		}
		if it == 7 || (thorough && it%5000 == 7) {
			tasks = 9000 + r.intn(2000) // one pool object that has completed many thousands of tasks over its lifetime
		}
		submitters := 1 + r.intn(4)
		rounds := 1 + r.intn(3)
		eff := w
		if eff <= 0 {
			eff = 1
		}
		var witness map[string]any
		owner := -1
		ownerCh := make(chan int, 1)
		runtime.Gosched()
		baseline := runtime.NumGoroutine()
		finished := withTimeout(20*time.Second, func() {
			ownerCh <- goid()
			pool := flyt.NewWorkerPool(w)
			counts := make([]int32, tasks*rounds)
			var inflight, high int32
			plain := make([]int, tasks*rounds) // non-atomic writes, read after Wait (race detector)
			for rd := 0; rd < rounds; rd++ {
				var sw sync.WaitGroup
				start := make(chan struct{})
				for s := 0; s < submitters; s++ {
					sw.Add(1)
					go func(s int) {
						defer sw.Done()
						<-start // all submitters begin together (also on a fresh pool)
						for t := s; t < tasks; t += submitters {
							id := rd*tasks + t
							spin := int(hashStr(strconv.Itoa(id*31+it)) % 8)
							pool.Submit(func() {
								n := atomic.AddInt32(&inflight, 1)
								for {
									h := atomic.LoadInt32(&high)
									if n <= h || atomic.CompareAndSwapInt32(&high, h, n) {
										break
									}
								}
								for i := 0; i < spin; i++ {
									runtime.Gosched()
								}
								atomic.AddInt32(&counts[id], 1)
								plain[id]++
								atomic.AddInt32(&inflight, -1)
							})
						}
					}(s)
				}
				close(start)
				sw.Wait()
				pool.Wait()
				for t := 0; t < tasks; t++ {
					id := rd*tasks + t
					if c := atomic.LoadInt32(&counts[id]); c != 1 || plain[id] != 1 {
						witness = map[string]any{"what": "after Wait returned, a submitted task had not run exactly once", "task": id, "count": c, "round": rd}
						return
					}
				}
			}
			if int(atomic.LoadInt32(&high)) > eff {
				witness = map[string]any{"what": "more tasks in flight than workers", "high": high, "workers": eff}
				return
			}
			pool.Close()
		})
		select {
		case owner = <-ownerCh:
		default:
		}
		if !finished {
			return stressResult{Kind: "pool", Runs: it + 1, Witness: map[string]any{"what": "pool run did not terminate (Submit/Wait hang)", "workers": w, "tasks": tasks, "submitters": submitters, "rounds": rounds, "iteration": it}}
		}
		if witness == nil {
			// cheap check first: the goroutine count returns to its baseline; only if it does not, look at a dump
			deadline := time.Now().Add(2 * time.Second)
			for runtime.NumGoroutine() > baseline && time.Now().Before(deadline) {
				runtime.Gosched()
			}
			if runtime.NumGoroutine() > baseline && owner >= 0 {
				if alive := countWorkers(buf, owner); alive != 0 {
					witness = map[string]any{"what": "worker goroutines alive after Wait + Close", "alive": alive}
				}
			}
		}
		if witness != nil {
			witness["workers"], witness["tasks"], witness["submitters"], witness["rounds"], witness["iteration"] = w, tasks, submitters, rounds, it
			return stressResult{Kind: "pool", Runs: it + 1, Witness: witness}
		}
	}
	if w := stressPoolSlowTasks(); w != nil {
		return stressResult{Kind: "pool", Runs: runs, Witness: w}
	}
	return stressResult{OK: true, Kind: "pool", Runs: runs}
}

// stressPoolSlowTasks: REAL TIME. Every worker of a pool is busy for more than a second while further tasks sit in the
// queue and nobody submits anything afterwards: the queued tasks still run and Wait returns. (A pool whose workers retire
// after an idle period measured from the wrong instant loses them.) Eight pools at once, so the check costs ~1.3 s.
func stressPoolSlowTasks() map[string]any {
	type res struct {
		ran, want int
		hung      bool
		workers   int
	}
	out := make(chan res, 8)
	for k := 0; k < 8; k++ {
		go func(k int) {
			workers := 1 + k%2
			pool := flyt.NewWorkerPool(workers)
			var ran int32
			want := workers + 3
			for i := 0; i < workers; i++ {
				pool.Submit(func() { time.Sleep(1150 * time.Millisecond); atomic.AddInt32(&ran, 1) })
			}
			for i := 0; i < 3; i++ {
				pool.Submit(func() { atomic.AddInt32(&ran, 1) })
			}
			ok := withTimeout(6*time.Second, pool.Wait)
			if ok {
				pool.Close()
			}
			out <- res{int(atomic.LoadInt32(&ran)), want, !ok, workers}
		}(k)
	}
	for k := 0; k < 8; k++ {
		r := <-out
		if r.hung || r.ran != r.want {
			return map[string]any{"what": "after tasks that ran for more than a second, queued tasks were not run / Wait did not return",
				"workers": r.workers, "ran": r.ran, "submitted": r.want, "waitHung": r.hung}
		}
	}
	return nil
}

// stressBatch: concurrent batches with random task durations; every observable clause of C06-C09 is checked
// on what post receives.
func stressBatch(r *rng, thorough bool) stressResult {
	runs := 1500
	if thorough {
		runs = 15000
	}
	for it := 0; it < runs; it++ {
		n := 1 + r.intn(64)
		c := 1 + r.intn(16)
		budget := 1 + r.intn(3)
		stop := r.chance(40)
		failMask := make([]int, n) // number of leading failing attempts of item i
		for i := range failMask {
			if r.chance(25) {
				failMask[i] = 1 + r.intn(3)
			}
		}
		fbOK := make([]bool, n)
		for i := range fbOK {
			fbOK[i] = r.chance(40)
		}
		var inflight, high int32
		attempts := make([]int32, n)
		fbCalls := make([]int32, n)
		var witness map[string]any
		var mu sync.Mutex
		setW := func(w map[string]any) {
			mu.Lock()
			if witness == nil {
				witness = w
			}
			mu.Unlock()
		}
		posts := int32(0)
		cn := flyt.NewNode(flyt.WithExecFallbackFunc(func(p any, err error) (any, error) {
			i := p.(flyt.Result).Value().(int)
			atomic.AddInt32(&fbCalls[i], 1)
			if fbOK[i] {
				return -i - 1, nil
			}
			return nil, fmt.Errorf("fb%d: %w", i, err)
		}))
		node := flyt.NewBatchNode()
		node.BatchNode.CustomNode = cn.CustomNode
		node.WithMaxRetries(budget).WithBatchConcurrency(c).WithBatchErrorHandling(!stop).
			WithPrepFunc(func(ctx context.Context, s *flyt.SharedStore) ([]flyt.Result, error) {
				items := make([]flyt.Result, n)
				for i := range items {
					items[i] = flyt.R(i)
				}
				return items, nil
			}).
			WithExecFunc(func(ctx context.Context, item flyt.Result) (flyt.Result, error) {
				i := item.Value().(int)
				k := atomic.AddInt32(&attempts[i], 1) - 1
				x := atomic.AddInt32(&inflight, 1)
				for {
					h := atomic.LoadInt32(&high)
					if x <= h || atomic.CompareAndSwapInt32(&high, h, x) {
						break
					}
				}
				spin := int(hashStr(strconv.Itoa(i*131+it)) % 60)
				for s := 0; s < spin; s++ {
					runtime.Gosched()
				}
				atomic.AddInt32(&inflight, -1)
				if int(k) < failMask[i] {
					return flyt.Result{}, fmt.Errorf("item %d attempt %d", i, k)
				}
				return flyt.R(i*1000 + int(k)), nil
			}).
			WithPostFunc(func(ctx context.Context, s *flyt.SharedStore, items, res []flyt.Result) (flyt.Action, error) {
				atomic.AddInt32(&posts, 1)
				if atomic.LoadInt32(&inflight) != 0 {
					setW(map[string]any{"what": "post ran while an exec call was still in flight"})
				}
				if len(res) != n || len(items) != n {
					setW(map[string]any{"what": "post got the wrong number of items/results", "items": len(items), "results": len(res)})
					return "", nil
				}
				for i, x := range res {
					a := int(atomic.LoadInt32(&attempts[i]))
					switch {
					case a == 0:
						if !x.IsError() {
							setW(map[string]any{"what": "an item that never ran is presented as a success", "item": i})
						}
					case failMask[i] < budget: // succeeds at attempt failMask[i]
						want := i*1000 + failMask[i]
						if a != failMask[i]+1 || x.IsError() || x.Value() != want {
							setW(map[string]any{"what": "slot is not the item's own outcome", "item": i, "attempts": a, "wantValue": want, "isError": x.IsError(), "value": fmt.Sprint(x.Value())})
						}
					default: // all attempts fail: fallback decides
						if a != budget || atomic.LoadInt32(&fbCalls[i]) != 1 {
							setW(map[string]any{"what": "wrong attempt / fallback count", "item": i, "attempts": a, "budget": budget, "fallbacks": fbCalls[i]})
						} else if fbOK[i] && (x.IsError() || x.Value() != -i-1) {
							setW(map[string]any{"what": "slot is not the fallback's value", "item": i})
						} else if !fbOK[i] && !x.IsError() {
							setW(map[string]any{"what": "failed item presented as success", "item": i})
						}
					}
				}
				return "done", nil
			})
		var act flyt.Action
		var err error
		ok := withTimeout(20*time.Second, func() { act, err = flyt.Run(context.Background(), node, flyt.NewSharedStore()) })
		if !ok {
			setW(map[string]any{"what": "batch run did not terminate"})
		} else if err != nil || act != "done" || posts != 1 {
			setW(map[string]any{"what": "unexpected run outcome", "err": fmt.Sprint(err), "action": string(act), "posts": posts})
		}
		if int(high) > c {
			setW(map[string]any{"what": "more items in flight than the concurrency limit", "high": high, "limit": c})
		}
		if !stop {
			for i := range attempts {
				if attempts[i] == 0 {
					setW(map[string]any{"what": "continue mode: an item was never processed", "item": i})
				}
			}
		}
		if witness != nil {
			witness["n"], witness["c"], witness["budget"], witness["stop"], witness["iteration"] = n, c, budget, stop, it
			return stressResult{Kind: "batch", Runs: it + 1, Witness: witness}
		}
	}
	// stop-on-error with a long tail: item 0 fails while item 1 is still in flight and succeeds later; the tail
	// behind them must never run (only items already picked up may). A stop flag that is lowered again by the late
	// success, or only checked at submission, shows up as (nearly) the whole tail being executed.
	tails := 6
	if thorough {
		tails = 40
	}
	for it := 0; it < tails; it++ {
		c := 2 + r.intn(3)
		n := 20000 + r.intn(20000)
		var executed int32
		failed := make(chan struct{})
		var once sync.Once
		var started sync.WaitGroup // the first c items are all in flight before item 0 fails
		started.Add(c)
		node := flyt.NewBatchNode().WithBatchConcurrency(c).WithBatchErrorHandling(false).
			WithPrepFunc(func(ctx context.Context, s *flyt.SharedStore) ([]flyt.Result, error) {
				items := make([]flyt.Result, n)
				for i := range items {
					items[i] = flyt.R(i)
				}
				return items, nil
			}).
			WithExecFunc(func(ctx context.Context, item flyt.Result) (flyt.Result, error) {
				i := item.Value().(int)
				atomic.AddInt32(&executed, 1)
				if i < c {
					started.Done()
					started.Wait()
				}
				switch {
				case i == 0:
					defer once.Do(func() { close(failed) })
					return flyt.Result{}, fmt.Errorf("item 0 fails")
				case i < c:
					<-failed // in flight while the failure is handled …
					time.Sleep(time.Duration(1+i) * time.Millisecond)
					return flyt.R(i), nil // … and succeeding afterwards
				}
				return flyt.R(i), nil
			}).
			WithPostFunc(func(ctx context.Context, s *flyt.SharedStore, items, res []flyt.Result) (flyt.Action, error) {
				return "done", nil
			})
		ok := withTimeout(30*time.Second, func() { flyt.Run(context.Background(), node, flyt.NewSharedStore()) })
		ex := int(atomic.LoadInt32(&executed))
		// at most the c items that were in flight, plus what other workers picked up in the instant between item 0's
		// exec returning and its failure being recorded (a handful at the very most)
		if os.Getenv("DBG") != "" {
			fmt.Fprintln(os.Stderr, "executed", ex, "of", n, "c", c)
		}
		if !ok || ex > c+64 {
			return stressResult{Kind: "batch", Runs: runs + it + 1, Witness: map[string]any{
				"what":     "stop-on-error: items far behind the failing one were executed after the failure had been handled",
				"executed": ex, "n": n, "c": c, "terminated": ok}}
		}
	}
	// the limit is USABLE also across phases of an item's processing: c mutually dependent items, some of them
	// inside their exec callback and some inside their fallback handler, must all be in flight at the same time
	// (mode 0: item 0 sits in its fallback while items 1..c-1 sit in exec; mode 1: all c items sit in their fallback)
	rounds := 12
	if thorough {
		rounds = 120
	}
	for it := 0; it < rounds; it++ {
		c := 2 + r.intn(7)
		mode := it % 2
		var rendezvous sync.WaitGroup
		rendezvous.Add(c)
		arrive := func() { rendezvous.Done(); rendezvous.Wait() }
		cn := flyt.NewNode(flyt.WithExecFallbackFunc(func(p any, err error) (any, error) {
			arrive()
			return "recovered", nil
		}))
		node := flyt.NewBatchNode()
		node.BatchNode.CustomNode = cn.CustomNode
		node.WithMaxRetries(1 + it%3).WithBatchConcurrency(c).WithBatchErrorHandling(true).
			WithPrepFunc(func(ctx context.Context, s *flyt.SharedStore) ([]flyt.Result, error) {
				items := make([]flyt.Result, c)
				for i := range items {
					items[i] = flyt.R(i)
				}
				return items, nil
			}).
			WithExecFunc(func(ctx context.Context, item flyt.Result) (flyt.Result, error) {
				i := item.Value().(int)
				if mode == 1 || i == 0 {
					return flyt.Result{}, fmt.Errorf("item %d fails", i) // … and meets the others in its fallback
				}
				arrive()
				return flyt.R(i), nil
			}).
			WithPostFunc(func(ctx context.Context, s *flyt.SharedStore, items, res []flyt.Result) (flyt.Action, error) {
				return "done", nil
			})
		if !withTimeout(8*time.Second, func() { flyt.Run(context.Background(), node, flyt.NewSharedStore()) }) {
			return stressResult{Kind: "batch", Runs: runs + tails + it + 1, Witness: map[string]any{
				"what": "c mutually dependent items (exec callbacks and fallback handlers) did not all run at the same time: the batch deadlocked",
				"c":    c, "mode": mode, "budget": 1 + it%3}}
		}
	}
	return stressResult{OK: true, Kind: "batch", Runs: runs + tails + rounds}
}

func stressMain(args []string) {
	if len(args) < 3 {
		fmt.Fprintln(os.Stderr, "usage: harness stress pool|batch <tier> <seed>")
		os.Exit(2)
	}
	seed, _ := strconv.ParseUint(args[2], 10, 64)
	r := newRng(seed ^ hashStr("stress"+args[0]))
	var res stressResult
	switch args[0] {
	case "pool":
		res = stressPool(r, args[1] == "thorough")
	case "batch":
		res = stressBatch(r, args[1] == "thorough")
	case "store":
		res = stressStore(r, args[1] == "thorough")
	default:
		fmt.Fprintln(os.Stderr, "unknown stress target", args[0])
		os.Exit(2)
	}
	b, _ := json.Marshal(res)
	fmt.Println(string(b))
	if !res.OK {
		os.Exit(1)
	}
}

// stressStore: BULK operations (Merge of many keys, Clear, GetAll / Keys / Len of a large store) racing other operations.
// Every linearizable store satisfies, whatever the interleaving:
//
//	phase A  writers Set keys PRIVATE to them while another goroutine keeps merging a large map of other keys: a writer that reads
//	         its own key back right after its Set returned finds what it set, and when everybody has finished every private key holds
//	         its writer's last Set (a lost update is a violation: nothing else writes those keys);
//	phase B  one goroutine alternates Merge(bulk) and Clear() while readers call Keys / GetAll / Len: the bulk keys appear and
//	         disappear all together, so a reader never counts SOME of them (a torn Merge or a half-cleared store).
//
// Large key counts make the windows of copy-on-write / chunked / lock-free-counter implementations wide enough to be hit.
func stressStore(r *rng, thorough bool) stressResult {
	budget := 1200 * time.Millisecond
	if thorough {
		budget = 12 * time.Second
	}
	deadline := time.Now().Add(budget)
	total := 0
	for it := 0; time.Now().Before(deadline); it++ {
		nBulk := []int{70, 300, 3000, 20000}[it%4]
		bulk := make(map[string]any, nBulk)
		for i := 0; i < nBulk; i++ {
			bulk["bulk/"+strconv.Itoa(i)] = i
		}
		slice := 120 * time.Millisecond
		var witness atomic.Value
		// ---- phase A: lost updates
		{
			st := flyt.NewSharedStore()
			writers := 1 + r.intn(3)
			var stop atomic.Bool
			fail := func(w any) { witness.CompareAndSwap(nil, w); stop.Store(true) }
			var wg sync.WaitGroup
			last := make([]int, writers)
			for w := 0; w < writers; w++ {
				wg.Add(1)
				go func(w int) {
					defer wg.Done()
					var mine [7]int // what this writer last set under each of its keys
					for n := 1; !stop.Load(); n++ {
						st.Set("private/"+strconv.Itoa(w)+"/"+strconv.Itoa(n%7), n)
						mine[n%7] = n
						last[w] = n
						for j, want := range mine { // every key of this writer still holds its last Set (an update lost a moment ago shows here)
							if want == 0 {
								continue
							}
							key := "private/" + strconv.Itoa(w) + "/" + strconv.Itoa(j)
							if got, ok := st.Get(key); !ok || got != want {
								fail(map[string]any{"what": "a Set that returned is lost (no other goroutine writes this key)", "key": key,
									"set": want, "got": fmt.Sprint(got), "present": ok, "bulkKeys": nBulk, "writers": writers})
								return
							}
						}
					}
				}(w)
			}
			end := time.Now().Add(slice)
			for !stop.Load() && time.Now().Before(end) {
				st.Merge(bulk)
				total++
				if it%2 == 1 {
					// … and the store shrinks again key by key (a store that compacts / rebuilds itself when it has become sparse
					// must not lose the writers' concurrent Sets either)
					for k := range bulk {
						st.Delete(k)
						if stop.Load() {
							break
						}
					}
				}
			}
			stop.Store(true)
			wg.Wait()
			if w := witness.Load(); w != nil {
				return stressResult{OK: false, Kind: "store", Runs: total, Witness: w}
			}
			for w := 0; w < writers; w++ {
				if n := last[w]; n > 0 {
					key := "private/" + strconv.Itoa(w) + "/" + strconv.Itoa(n%7)
					if got, ok := st.Get(key); !ok || got != n {
						return stressResult{OK: false, Kind: "store", Runs: total, Witness: map[string]any{
							"what": "after all goroutines finished a private key does not hold its writer's last Set", "key": key, "set": n,
							"got": fmt.Sprint(got), "present": ok, "bulkKeys": nBulk}}
					}
				}
			}
		}
		// ---- phase B: torn bulk views
		{
			st := flyt.NewSharedStore()
			var stop atomic.Bool
			fail := func(w any) { witness.CompareAndSwap(nil, w); stop.Store(true) }
			var wg sync.WaitGroup
			for rd := 0; rd < 2; rd++ {
				wg.Add(1)
				go func(rd int) {
					defer wg.Done()
					for !stop.Load() {
						var c int
						var what string
						switch rd {
						case 0:
							c, what = len(st.Keys()), "Keys()"
							if c == 0 || c == nBulk {
								c, what = st.Len(), "Len()"
							}
						default:
							c, what = len(st.GetAll()), "GetAll()"
						}
						if c != 0 && c != nBulk {
							fail(map[string]any{"what": what + " saw part of a Merge / a half-cleared store", "entriesSeen": c, "bulkKeys": nBulk})
							return
						}
					}
				}(rd)
			}
			end := time.Now().Add(slice)
			for !stop.Load() && time.Now().Before(end) {
				st.Merge(bulk)
				st.Clear()
				total++
			}
			stop.Store(true)
			wg.Wait()
			if w := witness.Load(); w != nil {
				return stressResult{OK: false, Kind: "store", Runs: total, Witness: w}
			}
		}
		// ---- phase C: Bind racing Set / Delete of its key — every Bind either reports the missing key or binds the value
		{
			st := flyt.NewSharedStore()
			var stop atomic.Bool
			var wg sync.WaitGroup
			type rec struct {
				ID   int    `json:"id"`
				Name string `json:"name"`
			}
			same := rec{ID: 7, Name: "same type"}
			wg.Add(1)
			go func() {
				defer wg.Done()
				for n := 0; !stop.Load(); n++ {
					if n%2 == 0 {
						st.Set("k", map[string]any{"id": 7, "name": "json path"})
					} else {
						st.Set("k", same)
					}
					st.Delete("k")
				}
			}()
			end := time.Now().Add(slice / 2)
			for time.Now().Before(end) {
				var dst rec
				err := st.Bind("k", &dst)
				total++
				if err == nil && dst.ID != 7 {
					stop.Store(true)
					wg.Wait()
					return stressResult{OK: false, Kind: "store", Runs: total, Witness: map[string]any{
						"what": "Bind returned nil although it bound nothing: the key was deleted between its existence check and its read",
						"dest": fmt.Sprintf("%+v", dst)}}
				}
			}
			stop.Store(true)
			wg.Wait()
		}
	}
	return stressResult{OK: true, Kind: "store", Runs: total}
}
