package main

// flyt verification harness.
//
//	harness gen <property> <tier> <seed>     generate the property's scenario family, run every scenario
//	                                         against the real flyt (from /repo), print one JSON line per
//	                                         scenario: {"fam":…,"sc":…,"obs":…}
//	harness replay                           read such lines on stdin, re-run each scenario, print fresh lines
//
// The lines are piped to lean/.lake/build/bin/flytdriver, which runs the Lean model on "sc" and
// judges "obs".

import (
	"bufio"
	"encoding/json"
	"fmt"
	"os"
	"runtime"
	"strconv"
	"strings"
	"sync"
	"time"
)

var shardIdx, shardCnt = 0, 1

type line struct {
	Fam string          `json:"fam"`
	Sc  json.RawMessage `json:"sc"`
	Obs json.RawMessage `json:"obs"`
}

type job struct {
	fam string
	sc  any
	run func() any
}

type jobList struct {
	jobs    []job
	lateCtr uint64
	valCtr  uint64
}

func (j *jobList) addFlow(sc FlowScenario) {
	s := sc
	normaliseZero(&s)
	j.lateCtr++
	if j.lateCtr%2 == 0 { // every second flow scenario: some connections are made during the run (see Conn.Late)
		lateify(&s, j.lateCtr*0x9E3779B97F4A7C15)
	}
	j.jobs = append(j.jobs, job{fam: "flow", sc: &s, run: func() any { return execFlowScenario(&s) }})
}

func (j *jobList) addRFlow(sc FlowScenario) {
	s := sc
	j.jobs = append(j.jobs, job{fam: "rflow", sc: &s, run: func() any { return execFlowScenario(&s) }})
}

func runJobs(jobs []job, parallel int, w *bufio.Writer) {
	out := make([][]byte, len(jobs))
	var wg sync.WaitGroup
	ch := make(chan int)
	for p := 0; p < parallel; p++ {
		wg.Add(1)
		go func() {
			defer wg.Done()
			for i := range ch {
				obs := jobs[i].run()
				scb, _ := json.Marshal(jobs[i].sc)
				ob, _ := json.Marshal(obs)
				b, _ := json.Marshal(line{Fam: jobs[i].fam, Sc: scb, Obs: ob})
				out[i] = b
			}
		}()
	}
	for i := range jobs {
		ch <- i
	}
	close(ch)
	wg.Wait()
	for _, b := range out {
		w.Write(b)
		w.WriteByte('\n')
	}
}

func main() {
	if len(os.Args) < 2 {
		fmt.Fprintln(os.Stderr, "usage: harness gen <property> <tier> <seed> | harness replay")
		os.Exit(2)
	}
	w := bufio.NewWriterSize(os.Stdout, 1<<20)
	defer w.Flush()
	// keep one timer-blocked goroutine alive: the Go runtime's "all goroutines are asleep" detector must not
	// kill the harness when a (mutated) flyt deadlocks; watchdogs report that instead
	go func() {
		for {
			time.Sleep(time.Hour)
		}
	}()
	switch os.Args[1] {
	case "stress":
		w.Flush()
		stressMain(os.Args[2:])
		return
	case "gen":
		if len(os.Args) < 5 {
			fmt.Fprintln(os.Stderr, "usage: harness gen <property> <tier> <seed>")
			os.Exit(2)
		}
		seed, _ := strconv.ParseUint(os.Args[4], 10, 64)
		jl := &jobList{}
		for _, a := range os.Args[5:] {
			if strings.HasPrefix(a, "shard=") {
				fmt.Sscanf(a, "shard=%d/%d", &shardIdx, &shardCnt)
			}
		}
		par := generate(os.Args[2], os.Args[3], seed, jl)
		if par <= 0 {
			par = runtime.NumCPU()
		}
		runJobs(jl.jobs, par, w)
	case "replay":
		sc := bufio.NewScanner(os.Stdin)
		sc.Buffer(make([]byte, 1<<20), 1<<26)
		for sc.Scan() {
			var l line
			if err := json.Unmarshal(sc.Bytes(), &l); err != nil {
				fmt.Fprintln(os.Stderr, "bad line:", err)
				os.Exit(2)
			}
			jl := &jobList{}
			if !replayLine(l, jl) {
				fmt.Fprintln(os.Stderr, "unknown family:", l.Fam)
				os.Exit(2)
			}
			runJobs(jl.jobs, 1, w)
		}
	default:
		fmt.Fprintln(os.Stderr, "unknown command", os.Args[1])
		os.Exit(2)
	}
}

func replayLine(l line, jl *jobList) bool {
	switch l.Fam {
	case "flow":
		var sc FlowScenario
		if err := json.Unmarshal(l.Sc, &sc); err != nil {
			fmt.Fprintln(os.Stderr, "bad scenario:", err)
			os.Exit(2)
		}
		jl.addFlow(sc)
		return true
	case "rflow":
		var sc FlowScenario
		if err := json.Unmarshal(l.Sc, &sc); err != nil {
			fmt.Fprintln(os.Stderr, "bad scenario:", err)
			os.Exit(2)
		}
		jl.addRFlow(sc)
		return true
	case "bind":
		var sc BindScenario
		if err := json.Unmarshal(l.Sc, &sc); err != nil {
			fmt.Fprintln(os.Stderr, "bad scenario:", err)
			os.Exit(2)
		}
		jl.addBind(sc)
		return true
	case "value":
		var sc ValueScenario
		if err := json.Unmarshal(l.Sc, &sc); err != nil {
			fmt.Fprintln(os.Stderr, "bad scenario:", err)
			os.Exit(2)
		}
		jl.addValue(sc)
		return true
	case "store", "storehist":
		return replayStoreLine(l, jl)
	case "config":
		var sc CfgScenario
		if err := json.Unmarshal(l.Sc, &sc); err != nil {
			fmt.Fprintln(os.Stderr, "bad scenario:", err)
			os.Exit(2)
		}
		jl.addConfig(sc)
		return true
	case "wait":
		var sc WaitScenario
		if err := json.Unmarshal(l.Sc, &sc); err != nil {
			fmt.Fprintln(os.Stderr, "bad scenario:", err)
			os.Exit(2)
		}
		jl.addWait(sc)
		return true
	case "pool":
		var sc PoolSc
		if err := json.Unmarshal(l.Sc, &sc); err != nil {
			fmt.Fprintln(os.Stderr, "bad scenario:", err)
			os.Exit(2)
		}
		jl.addPool(sc, nil)
		return true
	case "gbatch":
		var sc GBatchSc
		if err := json.Unmarshal(l.Sc, &sc); err != nil {
			fmt.Fprintln(os.Stderr, "bad scenario:", err)
			os.Exit(2)
		}
		jl.addGBatch(sc, nil)
		return true
	}
	return false
}

// generate fills jl with the scenario family of a property; returns the degree of parallelism
// (0 = number of CPUs).
func generate(prop, tier string, seed uint64, jl *jobList) int {
	thorough := tier == "thorough"
	r := newRng(seed ^ hashStr(prop))
	switch prop {
	case "C01":
		budgets := []int{1, 2, 3, 4}
		if thorough {
			budgets = []int{1, 2, 3, 4, 5, 6, 7, 8}
		}
		genLeafRuns(r, leafKinds(), budgets, true, jl.addFlow)
		genWaitCancelRuns(r, leafKinds(), jl.addFlow)
		genSelfNest(r, jl.addFlow)
		genTwins(r, jl.addFlow)
		genOddNodeKinds(r, jl.addFlow)
	case "C02":
		genTwins(r, jl.addFlow)
		genSelfNest(r, jl.addFlow)
		genLeafRuns(r, leafKinds(), []int{1, 2, 3, 4, 5, 6, 7, 8}, thorough, jl.addFlow)
		genWaitCancelRuns(r, leafKinds(), jl.addFlow)
		genBatchRetry(r, thorough, jl.addFlow)
	case "C03":
		genBuilderAlias(r, jl.addFlow)
		genZeroSizeNodes(r, jl.addFlow)
		genSelfNest(r, jl.addFlow)
		genC03(r, thorough, jl.addFlow)
	case "C04":
		genLongLoops(r, thorough, jl.addFlow)
		genInjected(r, thorough, "fail", jl.addFlow)
	case "C05":
		genInjected(r, thorough, "cancel", jl.addFlow)
		genWaitCancelRuns(r, leafKinds(), jl.addFlow)
	case "leafcancel":
		genLeafInjected(r, "cancel", jl.addFlow)
		genWaitCancelRuns(r, leafKinds(), jl.addFlow)
	case "leaffail":
		genLeafInjected(r, "fail", jl.addFlow)
	case "C19flow":
		genC19Flow(r, thorough, jl.addFlow)
	case "bigbatch":
		genBigBatches(r, thorough, jl.addFlow)
	case "batchflow":
		genBatchFlow(r, thorough, jl.addFlow)
	case "C10":
		genSubFlowLoop(r, thorough, jl.addFlow)
		genSelfNest(r, jl.addFlow)
		genC10(r, thorough, jl.addFlow)
	case "C16":
		genBind(r, thorough, jl.addBind)
	case "batchseq":
		genBatchSeq(r, thorough, jl.addFlow)
	case "C15":
		genC15(r, thorough, jl.addValue)
	case "C14":
		genC14(r, thorough, jl.addStore)
	case "C13stress":
		genC13stress(r, thorough, jl.addHist)
		return 2 // few histories at a time, so that each history's goroutines really run in parallel
	case "C19":
		genConfig(r, thorough, jl.addConfig)
	case "C20":
		genC20(r, thorough, jl.addWait)
		return 64 // real-time scenarios mostly sleep
	case "panic":
		genPanic(r, thorough, jl.addPanic)
	case "panicbatch":
		genPanicBatch(r, thorough, jl.addPanic)
	case "pool":
		genPool(r, thorough, shardIdx, shardCnt, jl)
		return 1
	case "gbatch":
		genGBatch(r, thorough, shardIdx, shardCnt, jl)
		return 1
	case "rflow":
		genRetriedFlows(r, thorough, jl.addRFlow)
	case "C17":
		genC17(r, thorough, jl.addFlow)
	case "C18":
		genC18(r, thorough, jl.addFlow)
	default:
		fmt.Fprintln(os.Stderr, "no generator for", prop)
		os.Exit(2)
	}
	return 0
}

func hashStr(s string) uint64 {
	var h uint64 = 1469598103934665603
	for i := 0; i < len(s); i++ {
		h ^= uint64(s[i])
		h *= 1099511628211
	}
	return h
}
