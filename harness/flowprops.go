package main

// Property-specific scenario families built from the generators of flowgen.go.

import (
	"strconv"
	"strings"
)

// C02 in batches: every item of a batch gets the node's retry budget and fallback (sequential, one
// worker, and c=2 in continue mode where the outcome does not depend on the schedule)
func genBatchRetry(r *rng, thorough bool, emit func(FlowScenario)) {
	t := &tokGen{r: r}
	maxN := 4
	if thorough {
		maxN = 8
	}
	for N := 1; N <= maxN; N++ {
		for _, conc := range []int{0, 1, 2} {
			for _, fb := range []string{"pass", "custom"} {
				for _, ex := range []string{"res", "any"} {
					for nItems := 1; nItems <= 3; nItems++ {
						reps := 3
						if thorough {
							reps = 10
						}
						for rep := 0; rep < reps; rep++ {
							t.next, t.errN = r.intn(30), r.intn(20)
							cfg := BatchCfg{Budget: N, Wait: r.intn(2), Fb: fb, Conc: conc, Stop: false, ExecS: ex, HasPost: true, Shape: "results", Build: r.pick([]string{"option", "builder", "bare"}),
								ExecVia: r.pick([]string{"", "", "copt", "cbuilder"})}
							bs := BatchScript{N: 0, V: 0, Post: "=done"}
							bs.Prep = batchItemsPrep(t, "results", nItems)
							for i := 0; i < nItems; i++ {
								// first success index 0..N (N = never), chosen per item
								fs := r.intn(N + 1)
								var m uint
								if fs < N {
									m = 1 << uint(fs)
								}
								if r.chance(30) {
									m |= uint(r.next()) & ((1 << uint(N+1)) - 1) &^ ((1 << uint(fs)) - 1)
								}
								bs.Items = append(bs.Items, t.itemScript(m, N+1, r.chance(50), ex))
							}
							emit(FlowScenario{Kind: "canceled", Ctx0: "live", Nodes: []NodeDef{{ID: 0, Batch: &cfg}},
								LeafScripts: []LeafScript{}, BatchScripts: []BatchScript{bs}, Steps: []Step{{Run: ip(0)}}})
						}
					}
				}
			}
		}
	}
}

// BIG batches (hundreds to a thousand items): whatever a batch of three items guarantees holds at this size too — sequential, and on
// a few / many workers (free-running: the item events are compared as a set, slots and post exactly)
func genBigBatches(r *rng, thorough bool, emit func(FlowScenario)) {
	t := &tokGen{r: r}
	sizes := []int{300, 1100}
	if thorough {
		sizes = []int{256, 257, 300, 513, 1024, 1100} // not beyond: the harness's own item bookkeeping is quadratic, and a run that outlasts the 10 s watchdog would be reported as a hang
	}
	for _, nItems := range sizes {
		for _, conc := range []int{0, 3, 8} {
			for _, ex := range []string{"res", "any"} {
				N := 1 + r.intn(2)
				t.next, t.errN = r.intn(30), r.intn(20)
				cfg := BatchCfg{Budget: N, Wait: 0, Fb: r.pick([]string{"pass", "custom"}), Conc: conc, Stop: false, ExecS: ex, HasPost: true, Shape: "results",
					Build: r.pick([]string{"option", "builder", "bare"}), ExecVia: r.pick([]string{"", "copt", "cbuilder"})}
				bs := BatchScript{N: 0, V: 0, Post: "=done"}
				bs.Prep = batchItemsPrep(t, "results", nItems)
				for i := 0; i < nItems; i++ {
					var m uint = (1 << uint(N+1)) - 1
					if r.chance(20) {
						m = uint(r.next()) & ((1 << uint(N+1)) - 1)
					}
					bs.Items = append(bs.Items, t.itemScript(m, N+1, r.chance(50), ex))
				}
				emit(FlowScenario{Kind: "canceled", Ctx0: "live", Nodes: []NodeDef{{ID: 0, Batch: &cfg}},
					LeafScripts: []LeafScript{}, BatchScripts: []BatchScript{bs}, Steps: []Step{{Run: ip(0)}}})
			}
		}
	}
}

// long paths: a self-loop / a two-node cycle taken many more times than any plausible step limit before it exits. The
// looping visits share one default script per node; only the exiting visit has a script of its own.
func genLongLoops(r *rng, thorough bool, emit func(FlowScenario)) {
	genLongLoopsVia(r, thorough, "again", "=again", emit)
}

// genLongLoopsVia: the looping edge carries `action`, the looping visits' post script is `post` ("=" = the empty action,
// which is the default action: the loop then runs on DEFAULT connections)
func genLongLoopsVia(r *rng, thorough bool, action, post string, emit func(FlowScenario)) {
	t := &tokGen{r: r}
	lens := []int{1100, 10500}
	if thorough {
		lens = []int{1100, 2600, 10500, 25000}
	}
	// the model's visit counters make a run of n visits cost O(n^2): beyond 3000 visits only the self-loop in the quick tier,
	// and nothing beyond 11000 visits of a two-node cycle
	skip := func(n int, two bool) bool { return two && (n > 11000 || (!thorough && n > 3000)) }
	leaf := LeafCfg{Retryable: true, Budget: 1, Fb: "pass", PrepS: "direct", ExecS: "direct", PostS: "direct"}
	for _, n := range lens {
		for _, two := range []bool{false, true} {
			if skip(n, two) {
				continue
			}
			a, b := leaf, leaf
			sc := FlowScenario{Kind: "canceled", Ctx0: "live", LeafScripts: []LeafScript{}, BatchScripts: []BatchScript{}}
			sc.Nodes = []NodeDef{{ID: 0, Leaf: &a}, {ID: 1, Leaf: &b}}
			ops := []Conn{{Src: 0, Action: action, Dst: ip(0)}, {Src: 0, Action: "out", Dst: ip(1)}}
			if two {
				ops = []Conn{{Src: 0, Action: action, Dst: ip(1)}, {Src: 1, Action: action, Dst: ip(0)}, {Src: 1, Action: "out", Dst: nil}}
			}
			sc.Nodes = append(sc.Nodes, NodeDef{ID: 2, Flow: &FlowDef{Start: ip(0), Ops: ops}})
			t.next, t.errN = r.intn(30), 0
			loop := func(id int) LeafScript {
				s := t.leafScript(id, 0, true, 1, 1, true, post)
				s.Prep, s.Exec = "t1", []string{"t2"}
				return s
			}
			exit := func(id, v int, post string) LeafScript {
				s := t.leafScript(id, v, true, 1, 1, true, post)
				s.Prep, s.Exec = "t1", []string{"t2"}
				return s
			}
			if two {
				sc.NodeDefaults = []LeafScript{loop(0), loop(1)}
				sc.LeafScripts = append(sc.LeafScripts, exit(1, n-1, "=out"))
				sc.Longest = 2 * n
			} else {
				sc.NodeDefaults = []LeafScript{loop(0)}
				sc.LeafScripts = append(sc.LeafScripts, exit(0, n-1, "=out"), exit(1, 0, "=done"))
				sc.Longest = n + 1
			}
			sc.Steps = []Step{{Run: ip(2)}}
			emit(sc)
		}
	}
}

func genC03(r *rng, thorough bool, emit func(FlowScenario)) {
	genLongLoops(r, thorough, emit)
	t := &tokGen{r: r}
	// exhaustive: 5^6 graphs x 8 action patterns (sampled in quick)
	total := 15625 * 8
	step := 7
	if thorough {
		step = 1
	}
	off := r.intn(step)
	for i := off; i < total; i += step {
		t.next, t.errN = r.intn(30), 0
		emit(smallGraph(i%15625, i/15625, t, i%5 == 0))
	}
	n := 1500
	if thorough {
		n = 8000
	}
	for i := 0; i < n; i++ {
		t.next = r.intn(30)
		emit(connectOrders(r, t))
	}
	// random graphs up to 12 nodes / 5 actions / nesting depth 3, each run twice
	m := 1500
	if thorough {
		m = 10000
	}
	for i := 0; i < m; i++ {
		p := flowParams{leaves: 2 + r.intn(9), batches: r.intn(3), depth: 1 + r.intn(3),
			actions: []string{"a", "ab", "b", "c", "d"}[:2+r.intn(4)], maxVisits: 2 + r.intn(3),
			pFail: 10, pPhaseFail: 2, funcStyle: true, reconnect: r.chance(50), runs: 2, wideBatch: true}
		emit(randFlow(r, p))
	}
}

func genInjected(r *rng, thorough bool, mode string, emit func(FlowScenario)) {
	n := 250
	if thorough {
		n = 1500
	}
	for i := 0; i < n; i++ {
		p := flowParams{leaves: 2 + r.intn(6), batches: r.intn(2), depth: 1 + r.intn(4),
			actions: []string{"a", "b", "c"}, maxVisits: 2 + r.intn(2),
			pFail: 25, pPhaseFail: 0, funcStyle: true, runs: 1, wideBatch: mode == "fail"}
		if i%2 == 0 {
			// an action label that reads like a failure channel is a label like any other: a node that FAILS does not
			// "return" it, and an edge carrying it is not an error handler
			p.actions = []string{"a", "error", "fail"}
		}
		if mode == "fail" && i%3 == 0 {
			// the same root is run AGAIN after the run with the injected failure: an earlier failure (at any depth) leaves
			// nothing behind in the flow objects
			p.runs = 2
		}
		sc := randFlow(r, p)
		if mode == "cancel" {
			sc.Kind = r.pick([]string{"canceled", "deadline", "deadline", "cause", "fardeadline", "child"})
			if false {
				sc.Kind = "deadline"
			}
			// no stop-mode / cancellation interplay with more than one worker
		}
		withInjections(sc, mode, emit)
		if mode == "cancel" && i%10 == 0 {
			d := sc
			d.Ctx0 = "done"
			emit(d)
		}
	}
	genLeafInjected(r, mode, emit)
}

// single nodes of every kind with a failure / cancellation injected at every callback
func genLeafInjected(r *rng, mode string, emit func(FlowScenario)) {
	t := &tokGen{r: r}
	for _, k := range leafKinds() {
		for _, N := range []int{1, 2, 3} {
			cfg := k
			cfg.Budget = N
			eff := N
			if !cfg.Retryable {
				eff = 1
			}
			for fs := 0; fs <= eff; fs++ {
				var m uint
				if fs < eff {
					m = 1 << uint(fs)
				}
				t.next, t.errN = r.intn(30), r.intn(20)
				sc := singleRun(cfg, t.leafScript(0, 0, true, m, eff+1, true, "=a"))
				if mode == "cancel" {
					sc.Kind = []string{"canceled", "deadline", "cause", "fardeadline", "child"}[(fs+N)%5]
				}
				withInjections(sc, mode, emit)
				if mode == "cancel" {
					d := sc
					d.Ctx0 = "done"
					emit(d)
				}
			}
		}
	}
}

// batchflow: flows that consist mostly of batch nodes (self-loops and batch-after-batch steps are frequent), with
// a cancellation injected inside every executed callback: what a flow does around a cancelled batch node
// (C11 "the run terminates", C05 "no further node is started")
func genBatchFlow(r *rng, thorough bool, emit func(FlowScenario)) {
	n := 120
	if thorough {
		n = 1200
	}
	for i := 0; i < n; i++ {
		p := flowParams{leaves: r.intn(2), batches: 2 + r.intn(3), depth: 1 + r.intn(2),
			actions: []string{"a", "b"}, maxVisits: 3, pFail: 25, pPhaseFail: 0, funcStyle: false, runs: 1, wideBatch: false}
		sc := randFlow(r, p)
		sc.Kind = r.pick([]string{"canceled", "deadline", "cause", "fardeadline", "child"})
		withInjections(sc, "cancel", emit)
	}
}

// C19flow: the same node configured through two different construction styles (all settings and functions as
// constructor options / all through builder methods / the two mixtures; for batch nodes also the bare *BatchNode and
// the exec function installed on the CustomNode), run on the same scripts: node ids apart, the two runs must be
// observably the same — attempts, waits' effect on order, payloads seen by every function, outcome.
func genC19Flow(r *rng, thorough bool, emit func(FlowScenario)) {
	t := &tokGen{r: r}
	builds := []string{"option", "builder", "mixed", "mixed2"}
	reps := 1
	if thorough {
		reps = 6
	}
	for rep := 0; rep < reps; rep++ {
		for _, k := range funcStyleKinds() {
			if k.Build != "option" {
				continue
			}
			for _, N := range []int{1, 2, 3} {
				a, b := k, k
				a.Budget, b.Budget = N, N
				a.Build = builds[r.intn(len(builds))]
				for b.Build = builds[r.intn(len(builds))]; b.Build == a.Build; {
					b.Build = builds[r.intn(len(builds))]
				}
				att := N + 1
				m := uint(r.next()) & ((1 << uint(att)) - 1)
				if r.chance(30) {
					m = 0
				}
				t.next, t.errN = r.intn(30), r.intn(20)
				s0 := t.leafScript(0, 0, true, m, att, r.chance(60), postStr(t, r.intn(3), "a"))
				if a.ExecS == "res" && r.chance(40) {
					// a Result-style exec function that reports its failure as an error Result with a nil error
					for k2, e := range s0.Exec {
						if !strings.HasPrefix(e, "!") {
							s0.Exec[k2] = "xu" + strconv.Itoa(t.err())
							break
						}
					}
				}
				s1 := s0
				s1.N = 1
				s1.Exec = append([]string{}, s0.Exec...)
				emit(FlowScenario{Kind: "canceled", Ctx0: "live", Nodes: []NodeDef{{ID: 0, Leaf: &a}, {ID: 1, Leaf: &b}},
					LeafScripts: []LeafScript{s0, s1}, BatchScripts: []BatchScript{},
					Steps: []Step{{Run: ip(0)}, {Run: ip(1)}}, Pairs: [][]int{{0, 1}}})
			}
		}
		// a node configured through chained builder setters is the node a flow knows: two function-style nodes in a flow,
		// the first one routing to the second (the connections are made from the builder the chain started from, the flow
		// starts at / routes to what the last setter returned)
		for _, k := range funcStyleKinds() {
			if k.Build != "option" || k.PostS == "absent" {
				continue
			}
			for _, bd := range builds {
				a, b := k, k
				a.Budget, b.Budget = 1+r.intn(3), 1+r.intn(2)
				a.Build, b.Build = bd, builds[r.intn(len(builds))]
				t.next, t.errN = r.intn(30), r.intn(20)
				// node 0 succeeds at its last attempt (or by its fallback), node 1 at a random one
				s0 := t.leafScript(0, 0, true, 1<<uint(a.Budget-1), a.Budget+1, true, "=go")
				s1 := t.leafScript(1, 0, true, uint(r.next())&3, b.Budget+1, r.chance(60), postStr(t, r.intn(3), "a"))
				// ... and the same flow with both nodes configured through constructor options only: the same observation
				a2, b2 := a, b
				a2.Build, b2.Build = "option", "option"
				s2, s3 := s0, s1
				s2.N, s3.N = 3, 4
				s2.Exec, s3.Exec = append([]string{}, s0.Exec...), append([]string{}, s1.Exec...)
				emit(FlowScenario{Kind: "canceled", Ctx0: "live",
					Nodes: []NodeDef{{ID: 0, Leaf: &a}, {ID: 1, Leaf: &b},
						{ID: 2, Flow: &FlowDef{Start: ip(0), Ops: []Conn{{Src: 0, Action: "go", Dst: ip(1)}}}},
						{ID: 3, Leaf: &a2}, {ID: 4, Leaf: &b2},
						{ID: 5, Flow: &FlowDef{Start: ip(3), Ops: []Conn{{Src: 3, Action: "go", Dst: ip(4)}}}}},
					LeafScripts: []LeafScript{s0, s1, s2, s3}, BatchScripts: []BatchScript{},
					Steps: []Step{{Run: ip(2)}, {Run: ip(5)}}, Pairs: [][]int{{0, 1}}})
			}
		}
		// batch nodes
		bbuilds := []string{"option", "builder", "mixed", "mixed2", "bare"}
		vias := []string{"", "copt", "cbuilder"}
		for i := 0; i < 150; i++ {
			cfg := randBatchCfg(r, false)
			cfg.HasPost = true
			a, b := cfg, cfg
			a.Build, b.Build = bbuilds[r.intn(len(bbuilds))], bbuilds[r.intn(len(bbuilds))]
			a.ExecVia, b.ExecVia = vias[r.intn(len(vias))], vias[r.intn(len(vias))]
			t.next, t.errN = r.intn(30), r.intn(20)
			s0 := randBatchScript(t, 0, 0, &a, 1+r.intn(4), 35, postStr(t, r.intn(3), "a"))
			s1 := s0
			s1.N = 1
			emit(FlowScenario{Kind: "canceled", Ctx0: "live", Nodes: []NodeDef{{ID: 0, Batch: &a}, {ID: 1, Batch: &b}},
				LeafScripts: []LeafScript{}, BatchScripts: []BatchScript{s0, s1},
				Steps: []Step{{Run: ip(0)}, {Run: ip(1)}}, Pairs: [][]int{{0, 1}}})
		}
	}
}

func genC10(r *rng, thorough bool, emit func(FlowScenario)) {
	n := 3000
	if thorough {
		n = 20000
	}
	for i := 0; i < n; i++ {
		p := flowParams{leaves: 2 + r.intn(6), batches: r.intn(2), depth: 2 + r.intn(3),
			actions: []string{"a", "b", "c", "stop"}[:2+r.intn(3)], maxVisits: 2 + r.intn(3),
			pFail: 10, pPhaseFail: 4, funcStyle: true, reconnect: false, runs: 1 + r.intn(2), wideBatch: true}
		emit(randFlow(r, p))
	}
}

func genC17(r *rng, thorough bool, emit func(FlowScenario)) {
	budgets := []int{1, 2}
	if thorough {
		budgets = []int{1, 2, 3}
	}
	// all 8 style combinations x construction styles x fallback, all outcome scripts
	genLeafRuns(r, funcStyleKinds(), budgets, true, emit)
	// error results returned by a Result-style exec (NewErrorResult(e), nil)
	t := &tokGen{r: r}
	for _, k := range funcStyleKinds() {
		if k.ExecS != "res" {
			continue
		}
		for rep := 0; rep < 2; rep++ {
			cfg := k
			cfg.Budget = 1 + rep
			t.next, t.errN = r.intn(30), r.intn(20)
			scr := t.leafScript(0, 0, true, 1, cfg.Budget+1, true, "=a")
			scr.Exec[0] = "xu" + strconv.Itoa(t.err())
			if rep == 1 {
				emit(asFlowStep(cfg, scr, t))
			} else {
				emit(singleRun(cfg, scr))
			}
		}
	}
	// inside batches: items are passed as they are, slot i is exec's result
	genBatchRetry(r, false, emit)
}

func genC18(r *rng, thorough bool, emit func(FlowScenario)) {
	genLongLoopsVia(r, thorough, "default", "=", emit) // a long loop on DEFAULT connections (post returns the empty action)
	t := &tokGen{r: r}
	// … including nodes whose BaseNode is the zero value (never went through NewBaseNode): cancellation-free runs only
	nilPtrKind := LeafCfg{Retryable: false, Fb: "absent", PrepS: "direct", ExecS: "direct", PostS: "direct", Impl: "nilptr"}
	for _, k := range append(append(leafKinds(), zeroBaseKinds()...), nilPtrKind) {
		for pk, post := range []string{"=", "=default", "=custom", "= ", "=\n\t"} {
			_ = pk
			cfg := k
			cfg.Budget = 1
			t.next, t.errN = r.intn(30), r.intn(20)
			scr := t.leafScript(0, 0, true, 1, 2, true, post)
			emit(singleRun(cfg, scr))
			emit(asFlowStep(cfg, scr, t))
			if cfg.PrepS != "absent" && cfg.Impl != "zeroptr" && cfg.Impl != "zeroval" && pk < 2 {
				// the context ends while a SUCCESSFUL prep is running: the run is cut short with an error — it does not
				// "succeed" with the empty action
				cs := scr
				cs.Prep += "*"
				emit(singleRun(cfg, cs))
				emit(asFlowStep(cfg, cs, t))
			}
			// … and when the result comes from a later attempt or from the fallback
			for _, bud := range []int{1, 2} {
				c2 := k
				c2.Budget = bud
				for _, m := range []uint{0, 2} {
					t.next, t.errN = r.intn(30), r.intn(20)
					s2 := t.leafScript(0, 0, true, m, bud+1, true, post)
					emit(singleRun(c2, s2))
					emit(asFlowStep(c2, s2, t))
				}
			}
		}
	}
	// batch nodes: sizes 0..3 x concurrency 0..2 x post action, directly and as a routed step
	for size := 0; size <= 3; size++ {
		for conc := 0; conc <= 2; conc++ {
			// … and a post that FAILS with an "empty" error value and no action (the library's own empty aggregate, a nil pointer of
			// it, a typed-nil error): a failure — not a success with the empty action
			for _, post := range []string{"=", "=default", "=custom", "= ", "!21", "!24", "!15"} {
				for _, shape := range []string{"results", "anys", "typed", "nil", "single"} {
					if strings.HasPrefix(post, "!") && (size+conc)%2 == 1 {
						continue
					}
					if (shape == "nil") != (size == 0) && shape != "results" && shape != "anys" {
						continue
					}
					t.next, t.errN = r.intn(30), r.intn(20)
					cfg := BatchCfg{Budget: 1, Fb: "pass", Conc: conc, ExecS: "res", HasPost: true, Shape: shape, Build: r.pick([]string{"option", "builder", "bare"})}
					bs := randBatchScript(t, 0, 0, &cfg, size, 0, post)
					emit(FlowScenario{Kind: "canceled", Ctx0: "live", Nodes: []NodeDef{{ID: 0, Batch: &cfg}},
						LeafScripts: []LeafScript{}, BatchScripts: []BatchScript{bs}, Steps: []Step{{Run: ip(0)}}})
					succ := LeafCfg{Retryable: true, Budget: 1, Fb: "pass", PrepS: "direct", ExecS: "direct", PostS: "direct"}
					emit(FlowScenario{Kind: "canceled", Ctx0: "live",
						Nodes: []NodeDef{{ID: 0, Batch: &cfg}, {ID: 1, Leaf: &succ},
							{ID: 2, Flow: &FlowDef{Start: ip(0), Ops: []Conn{{Src: 0, Action: "default", Dst: ip(1)}, {Src: 0, Action: "", Dst: nil}}}}},
						LeafScripts:  []LeafScript{t.leafScript(1, 0, true, 1, 1, true, "=done")},
						BatchScripts: []BatchScript{bs}, Steps: []Step{{Run: ip(2)}}})
				}
			}
		}
	}
	// flows used as nodes: the inner flow's last node returns the empty action
	n := 300
	if thorough {
		n = 3000
	}
	for i := 0; i < n; i++ {
		p := flowParams{leaves: 2 + r.intn(4), batches: r.intn(2), depth: 1 + r.intn(3),
			actions: []string{"a", "default"}, maxVisits: 2, pFail: 5, pPhaseFail: 0, funcStyle: true, runs: 1, wideBatch: true}
		sc := randFlow(r, p)
		for j := range sc.LeafScripts {
			if r.chance(40) {
				sc.LeafScripts[j].Post = "="
			}
		}
		for j := range sc.BatchScripts {
			if r.chance(40) {
				sc.BatchScripts[j].Post = "="
			}
		}
		emit(sc)
	}
}

// batchseq: single batch nodes on the deterministic paths — sequential (c=0), one worker (c=1), and
// c>=2 in continue mode without cancellation — all positions of the first failing item, both modes,
// every prep payload shape, and a cancellation injected inside every executed callback.
func genBatchSeq(r *rng, thorough bool, emit func(FlowScenario)) {
	t := &tokGen{r: r}
	maxN := 8
	if thorough {
		maxN = 16
	}
	mk := func(cfg BatchCfg, bs BatchScript) FlowScenario {
		return FlowScenario{Kind: "canceled", Ctx0: "live", Nodes: []NodeDef{{ID: 0, Batch: &cfg}},
			LeafScripts: []LeafScript{}, BatchScripts: []BatchScript{bs}, Steps: []Step{{Run: ip(0)}}}
	}
	for n := 0; n <= maxN; n++ {
		for _, conc := range []int{0, 1, 2, 4} {
			for _, stop := range []bool{false, true} {
				if conc >= 2 && stop {
					continue
				}
				for f := -1; f < n; f++ { // position of the first failing item
					for _, budget := range []int{1, 2} {
						t.next, t.errN = r.intn(30), r.intn(20)
						shape := r.pick([]string{"results", "results", "anys", "typed"})
						cfg := BatchCfg{Budget: budget, Fb: r.pick([]string{"pass", "custom"}), Conc: conc, Stop: stop,
							ExecS: r.pick([]string{"res", "any"}), HasPost: true, Shape: shape, Build: r.pick([]string{"option", "builder", "bare"}),
							ExecVia: r.pick([]string{"", "", "copt", "cbuilder"})}
						if budget > 1 && r.chance(30) {
							cfg.Wait = 1 // a (short) retry wait: retries must still happen item by item, in place
						}
						bs := BatchScript{N: 0, V: 0, Post: "=done"}
						if r.chance(20) {
							bs.Post = "!" + strconv.Itoa(70+r.intn(9)) // post itself fails (also on a cancelled context: reported once, as it is)
						}
						bs.Prep = batchItemsPrep(t, shape, n)
						for i := 0; i < n; i++ {
							var m uint = (1 << uint(budget+1)) - 1
							if i == f {
								m = 0
							} else if i > f && f >= 0 && r.chance(30) {
								m = uint(r.next()) & ((1 << uint(budget+1)) - 1)
							}
							bs.Items = append(bs.Items, t.itemScript(m, budget+1, r.chance(40), cfg.ExecS))
						}
						if bs.Items == nil {
							bs.Items = []ItemScript{}
						}
						sc := mk(cfg, bs)
						if conc <= 1 && (thorough || n <= 5) {
							sc.Kind = r.pick([]string{"canceled", "deadline"})
							withInjections(sc, "cancel", emit)
							if f == -1 {
								d := sc
								d.Ctx0 = "done"
								emit(d)
							}
						} else {
							emit(sc)
						}
					}
				}
			}
		}
	}
	// large batches (far beyond the pool's queue): sequential, one worker, and wide in continue mode
	sizes := []int{300}
	if thorough {
		sizes = []int{300, 1500}
	}
	for _, n := range sizes {
		for _, conc := range []int{0, 1, 8} {
			for _, stop := range []bool{false, true} {
				if conc >= 2 && stop {
					continue
				}
				t.next, t.errN = r.intn(30), r.intn(20)
				cfg := BatchCfg{Budget: 2, Fb: "pass", Conc: conc, Stop: stop, ExecS: "res", HasPost: true, Shape: "results", Build: "builder"}
				bs := BatchScript{N: 0, V: 0, Post: "=done"}
				bs.Prep = batchItemsPrep(t, "results", n)
				f := n/2 + r.intn(n/4)
				for i := 0; i < n; i++ {
					var m uint = 7
					if i == f || (i > f && r.chance(3)) {
						m = 0
					} else if r.chance(5) {
						m = 6 // fails once, then succeeds
					}
					bs.Items = append(bs.Items, t.itemScript(m, 3, false, "any"))
				}
				emit(mk(cfg, bs))
			}
		}
	}
	// EQUAL payloads at several positions: every position is an item of its own (executed, and reported in its own slot).
	// Budget 1, pass-through fallback; sequential / one worker: every position has its own script (the k-th execution of a
	// payload is the k-th position carrying it); wider pools: equal payloads have equal scripts (any assignment is the same)
	dups := 40
	if thorough {
		dups = 400
	}
	for rep := 0; rep < dups; rep++ {
		n := 2 + r.intn(6)
		conc := []int{0, 0, 1, 3}[r.intn(4)]
		stop := conc <= 1 && r.chance(40)
		shape := r.pick([]string{"results", "anys", "typed"})
		t.next, t.errN = r.intn(30), r.intn(20)
		cfg := BatchCfg{Budget: 1, Fb: "pass", Conc: conc, Stop: stop, ExecS: r.pick([]string{"res", "any"}), HasPost: true, Shape: shape,
			Build: r.pick([]string{"option", "builder", "bare"})}
		distinct := 1 + r.intn(2)
		pool := []string{}
		for i := 0; i < distinct; i++ {
			switch shape {
			case "typed":
				t.next++
				for t.next%8 != 1 {
					t.next++
				}
				pool = append(pool, "t"+strconv.Itoa(t.next))
			case "results":
				pool = append(pool, "r"+t.tok())
			default:
				pool = append(pool, t.tok())
			}
		}
		parts := make([]string, n)
		bs := BatchScript{N: 0, V: 0, Post: "=done"}
		shared := map[string]ItemScript{}
		failAt := -1
		if r.chance(35) {
			failAt = r.intn(n)
		}
		for i := 0; i < n; i++ {
			parts[i] = pool[r.intn(len(pool))]
			var m uint = 3
			if i == failAt && conc <= 1 {
				m = 0
			}
			if conc >= 2 {
				it, ok := shared[parts[i]]
				if !ok {
					it = t.itemScript(3, 2, false, cfg.ExecS)
					shared[parts[i]] = it
				}
				bs.Items = append(bs.Items, it)
			} else {
				bs.Items = append(bs.Items, t.itemScript(m, 2, false, cfg.ExecS))
			}
		}
		bs.Prep = strings.Join(parts, ",")
		emit(mk(cfg, bs))
	}
	// a typed slice of pointers with nil elements: every element is an item (token kind 3 = *int, 1001 = the nil *int)
	for rep := 0; rep < 12; rep++ {
		n := 2 + r.intn(4)
		conc := []int{0, 1, 3}[rep%3]
		t.next, t.errN = r.intn(30), r.intn(20)
		cfg := BatchCfg{Budget: 1, Fb: "pass", Conc: conc, ExecS: r.pick([]string{"res", "any"}), HasPost: true, Shape: "ptrs",
			Build: r.pick([]string{"option", "builder", "bare"})}
		parts := []string{}
		bs := BatchScript{N: 0, V: 0, Post: "=done"}
		nilAt := r.intn(n)
		for i := 0; i < n; i++ {
			if i == nilAt {
				parts = append(parts, "t1001")
			} else {
				t.next++
				for t.next%8 != 3 {
					t.next++
				}
				parts = append(parts, "t"+strconv.Itoa(t.next))
			}
			bs.Items = append(bs.Items, t.itemScript(3, 2, false, cfg.ExecS))
		}
		bs.Prep = strings.Join(parts, ",")
		emit(mk(cfg, bs))
	}
	// the batch settings are given to the node by its own prep callback (built with decoys): sequential, one worker, and
	// wide in continue mode
	for rep := 0; rep < 30; rep++ {
		n := 1 + r.intn(6)
		conc := []int{0, 1, 3}[rep%3]
		stop := conc <= 1 && rep%2 == 0
		t.next, t.errN = r.intn(30), r.intn(20)
		cfg := BatchCfg{Budget: 1 + r.intn(2), Fb: "pass", Conc: conc, Stop: stop, ExecS: r.pick([]string{"res", "any"}), HasPost: true,
			Shape: "results", Build: r.pick([]string{"option", "builder", "bare"}), PrepConf: true}
		bs := randBatchScript(t, 0, 0, &cfg, n, 35, "=done")
		emit(mk(cfg, bs))
	}
	// single value / nil payloads and the empty batch (also with post returning the empty action)
	for _, shape := range []string{"single", "nil", "results", "anys"} {
		for _, conc := range []int{0, 1, 3} {
			for _, post := range []string{"=done", "="} {
				t.next, t.errN = r.intn(30), r.intn(20)
				cfg := BatchCfg{Budget: 2, Fb: "pass", Conc: conc, ExecS: "res", HasPost: true, Shape: shape, Build: "builder"}
				n := 1
				if shape == "nil" || shape == "results" {
					n = 0
				}
				emit(mk(cfg, randBatchScript(t, 0, 0, &cfg, n, 30, post)))
			}
		}
	}
}

// family "rflow" (C02 for a flow): a flow whose embedded BaseNode was given a retry budget. The root flow R starts with a
// fresh leaf S (prep / exec / post always succeed, action "go") that no connection leads to, and goes on with a randomly
// generated flow as a nested node: every attempt of R's Exec shows as one prep of S.
func genRetriedFlows(r *rng, thorough bool, emit func(FlowScenario)) {
	n := 400
	if thorough {
		n = 4000
	}
	for i := 0; i < n; i++ {
		p := flowParams{leaves: 1 + r.intn(4), batches: 0, depth: 1 + r.intn(2), actions: []string{"a", "b"}, maxVisits: 3 + r.intn(4),
			pFail: 30 + r.intn(40), pPhaseFail: 8, funcStyle: true, runs: 1}
		sc := randFlow(r, p)
		if len(sc.Steps) != 1 || sc.Steps[0].Run == nil {
			continue
		}
		inner := *sc.Steps[0].Run
		maxID := 0
		for _, nd := range sc.Nodes {
			if nd.ID > maxID {
				maxID = nd.ID
			}
		}
		sID, rID := maxID+1, maxID+2
		budget := r.intn(5)
		if i%7 == 0 {
			budget = 1
		}
		leaf := LeafCfg{Retryable: true, Budget: 1, Fb: "pass", PrepS: "direct", ExecS: "direct", PostS: "direct"}
		if i%2 == 0 {
			// the start node has a retry budget and a ONE-HOUR wait of its own, and succeeds at its first attempt every time:
			// there is no wait before a first attempt, whatever attempt the enclosing flow is at
			leaf.Budget, leaf.Wait = 2, 3600000
		}
		sc.Nodes = append(sc.Nodes, NodeDef{ID: sID, Leaf: &leaf},
			NodeDef{ID: rID, Flow: &FlowDef{Start: ip(sID), Ops: []Conn{{Src: sID, Action: "go", Dst: ip(inner)}}}})
		t := &tokGen{r: r, next: 40 + r.intn(20), errN: 40}
		for v := 0; v <= budget+1; v++ {
			ls := t.leafScript(sID, v, true, 1, leaf.Budget+1, true, "=go")
			sc.LeafScripts = append(sc.LeafScripts, ls)
		}
		sc.Steps = []Step{{Run: ip(rID)}}
		if i%3 == 1 {
			sc.Steps[0].Via = "flow" // through the convenience method flow.Run(ctx, store): the same budget applies
		}
		sc.RBudget = ip(budget)
		if i%9 == 0 { // a callback somewhere cancels the context: the retry loop must stop with the context's error
			base := execFlowScenario(&sc)
			if len(base.Runs) == 1 && len(base.Runs[0].Trace) > 0 {
				ev := base.Runs[0].Trace[r.intn(len(base.Runs[0].Trace))]
				if v, ok := injectAt(sc, ev, "cancel", 0); ok {
					sc = v
				}
			}
		}
		emit(sc)
	}
}

// a NodeBuilder and the *CustomNode it wraps are two different nodes: a connection made from the one is not a connection of the
// other. The wrapped node is connected (a decoy) but never reached.
func genBuilderAlias(r *rng, emit func(FlowScenario)) {
	t := &tokGen{r: r}
	for _, k := range funcStyleKinds() {
		if k.PostS == "absent" {
			continue
		}
		for variant := 0; variant < 3; variant++ {
			x := k
			x.Budget = 1 + r.intn(2)
			y := x
			y.Impl, y.Of = "inner", 0
			a := LeafCfg{Retryable: false, Budget: 1, Fb: "absent", PrepS: "direct", ExecS: "direct", PostS: "direct"}
			b := a
			var ops []Conn
			switch variant {
			case 0: // only the wrapped node has the edge: the flow ends after the builder node
				ops = []Conn{{Src: 1, Action: "go", Dst: ip(2)}}
			case 1: // both have one, to different targets, the wrapped node's made later
				ops = []Conn{{Src: 0, Action: "go", Dst: ip(2)}, {Src: 1, Action: "go", Dst: ip(3)}}
			default: // the wrapped node's later connection ends the flow; the builder's does not
				ops = []Conn{{Src: 0, Action: "go", Dst: ip(2)}, {Src: 1, Action: "go", Dst: nil}}
			}
			t.next, t.errN = r.intn(30), r.intn(20)
			s0 := t.leafScript(0, 0, true, 1, x.Budget+1, true, "=go")
			s2 := t.leafScript(2, 0, true, 1, 2, true, "=done")
			s3 := t.leafScript(3, 0, true, 1, 2, true, "=other")
			emit(FlowScenario{Kind: "canceled", Ctx0: "live",
				Nodes: []NodeDef{{ID: 0, Leaf: &x}, {ID: 1, Leaf: &y}, {ID: 2, Leaf: &a}, {ID: 3, Leaf: &b},
					{ID: 4, Flow: &FlowDef{Start: ip(0), Ops: ops}}},
				LeafScripts: []LeafScript{s0, s2, s3}, BatchScripts: []BatchScript{},
				Steps: []Step{{Run: ip(4)}}})
		}
	}
}

// nodes of unusual Go kinds: a struct used BY VALUE (not nillable), a nil pointer whose methods never touch the receiver, a pointer to
// a zero-size struct: one lifecycle each, like any other node — alone and as a step of a flow
func genOddNodeKinds(r *rng, emit func(FlowScenario)) {
	t := &tokGen{r: r}
	for _, impl := range []string{"value", "nilptr", "emptyA"} {
		cfg := LeafCfg{Retryable: false, Budget: 1, Fb: "absent", PrepS: "direct", ExecS: "direct", PostS: "direct", Impl: impl}
		for _, mask := range []uint{1, 0} {
			for _, prepOK := range []bool{true, false} {
				for pk := 0; pk < 3; pk++ {
					t.next, t.errN = r.intn(30), r.intn(20)
					scr := t.leafScript(0, 0, prepOK, mask, 2, true, postStr(t, pk, "a"))
					emit(singleRun(cfg, scr))
					emit(asFlowStep(cfg, scr, t))
				}
			}
		}
	}
}

// node types that differ in what they implement but print the same type name (function-local types, like same-named types of
// two packages): a plain one is run first, then the ones with a retry budget and / or a fallback, then the plain one again
func genTwins(r *rng, emit func(FlowScenario)) {
	t := &tokGen{r: r}
	mk := func(retry bool, fb string, N int) LeafCfg {
		return LeafCfg{Retryable: retry, Budget: N, Fb: fb, PrepS: "direct", ExecS: "direct", PostS: "direct", Impl: "twin"}
	}
	for _, N := range []int{2, 3, 4} {
		for rep := 0; rep < 4; rep++ {
			cfgs := []LeafCfg{mk(false, "absent", N), mk(true, "custom", N), mk(true, "absent", N), mk(false, "custom", N), mk(false, "absent", 1)}
			// the order after the first (plain) one varies
			for i := len(cfgs) - 1; i > 1; i-- {
				j := 1 + r.intn(i)
				cfgs[i], cfgs[j] = cfgs[j], cfgs[i]
			}
			sc := FlowScenario{Kind: "canceled", Ctx0: "live", LeafScripts: []LeafScript{}, BatchScripts: []BatchScript{}}
			for id := range cfgs {
				c := cfgs[id]
				sc.Nodes = append(sc.Nodes, NodeDef{ID: id, Leaf: &c})
				eff := 1
				if c.Retryable {
					eff = c.Budget
				}
				// all attempts fail (the fallback decides), or the last attempt succeeds
				var mask uint
				if r.chance(50) {
					mask = 1 << uint(eff-1)
				}
				t.next, t.errN = r.intn(30), r.intn(20)
				sc.LeafScripts = append(sc.LeafScripts, t.leafScript(id, 0, true, mask, eff+1, r.chance(70), postStr(t, 0, "a")))
				sc.Steps = append(sc.Steps, Step{Run: ip(id)})
			}
			emit(sc)
		}
	}
}

// a flow nested in ITSELF (directly: F's table sends a node of F to F; or through a second flow: F inside G inside F), with
// scripts that make the recursion end: a node like any other as far as routing goes — entered again before the enclosing
// execution of the same flow object has finished
func genSelfNest(r *rng, emit func(FlowScenario)) {
	t := &tokGen{r: r}
	leaf := LeafCfg{Retryable: true, Budget: 2, Fb: "pass", PrepS: "direct", ExecS: "direct", PostS: "direct"}
	for depth := 1; depth <= 3; depth++ {
		for _, mutual := range []bool{false, true} {
			for _, failDeep := range []bool{false, true} {
				a, b := leaf, leaf
				sc := FlowScenario{Kind: "canceled", Ctx0: "live", LeafScripts: []LeafScript{}, BatchScripts: []BatchScript{}}
				// 0 = A (descends `depth` times, then stops), 1 = B (runs after each return), 2 = F, 3 = G (mutual only)
				sc.Nodes = []NodeDef{{ID: 0, Leaf: &a}, {ID: 1, Leaf: &b}}
				if mutual {
					sc.Nodes = append(sc.Nodes,
						NodeDef{ID: 2, Flow: &FlowDef{Start: ip(0), Ops: []Conn{{Src: 0, Action: "down", Dst: ip(3)}, {Src: 3, Action: "stop", Dst: ip(1)}, {Src: 3, Action: "default", Dst: ip(1)}}}},
						NodeDef{ID: 3, Flow: &FlowDef{Start: ip(1), Ops: []Conn{{Src: 1, Action: "default", Dst: ip(2)}}}})
				} else {
					sc.Nodes = append(sc.Nodes,
						NodeDef{ID: 2, Flow: &FlowDef{Start: ip(0), Ops: []Conn{{Src: 0, Action: "down", Dst: ip(2)}, {Src: 2, Action: "stop", Dst: ip(1)}, {Src: 2, Action: "default", Dst: ip(1)}}}})
				}
				t.next, t.errN = r.intn(30), r.intn(20)
				for v := 0; v <= depth; v++ {
					post := "=down"
					if v == depth {
						post = "=stop"
					}
					s := t.leafScript(0, v, true, 1, 2, true, post)
					if failDeep && v == depth {
						s = t.leafScript(0, v, true, 0, 3, false, post) // the innermost execution fails: every enclosing one fails with it
					}
					sc.LeafScripts = append(sc.LeafScripts, s)
				}
				for v := 0; v <= 2*depth+1; v++ {
					sc.LeafScripts = append(sc.LeafScripts, t.leafScript(1, v, true, 1, 2, true, "="))
				}
				sc.Steps = []Step{{Run: ip(2)}}
				emit(sc)
			}
		}
	}
}

// two nodes of DIFFERENT field-less types (and a nil-pointer node) in one flow: each has its own row of the transition table
func genZeroSizeNodes(r *rng, emit func(FlowScenario)) {
	t := &tokGen{r: r}
	mkLeaf := func(impl string) *LeafCfg {
		return &LeafCfg{Retryable: false, Fb: "absent", PrepS: "direct", ExecS: "direct", PostS: "direct", Impl: impl}
	}
	plain := LeafCfg{Retryable: true, Budget: 1, Fb: "pass", PrepS: "direct", ExecS: "direct", PostS: "direct"}
	for _, order := range [][3]string{{"emptyA", "emptyB", "nilptr"}, {"emptyB", "nilptr", "emptyA"}, {"nilptr", "emptyA", "emptyB"}} {
		for rep := 0; rep < 2; rep++ {
			c := plain
			sc := FlowScenario{Kind: "canceled", Ctx0: "live", LeafScripts: []LeafScript{}, BatchScripts: []BatchScript{}}
			sc.Nodes = []NodeDef{{ID: 0, Leaf: mkLeaf(order[0])}, {ID: 1, Leaf: mkLeaf(order[1])}, {ID: 2, Leaf: mkLeaf(order[2])}, {ID: 3, Leaf: &c}}
			// 0 -go-> 1 -go-> 2 -go-> 3, and decoy edges on the same action from the other nodes
			ops := []Conn{{Src: 0, Action: "go", Dst: ip(1)}, {Src: 1, Action: "go", Dst: ip(2)}, {Src: 2, Action: "go", Dst: ip(3)},
				{Src: 0, Action: "back", Dst: ip(3)}, {Src: 1, Action: "back", Dst: ip(0)}}
			if rep == 1 { // the rows are written in another order
				ops = []Conn{ops[2], ops[4], ops[1], ops[3], ops[0]}
			}
			sc.Nodes = append(sc.Nodes, NodeDef{ID: 4, Flow: &FlowDef{Start: ip(0), Ops: ops}})
			t.next, t.errN = r.intn(30), 0
			for id := 0; id < 3; id++ {
				sc.LeafScripts = append(sc.LeafScripts, t.leafScript(id, 0, true, 1, 1, true, "=go"))
			}
			sc.LeafScripts = append(sc.LeafScripts, t.leafScript(3, 0, true, 1, 1, true, "=done"))
			sc.Steps = []Step{{Run: ip(4)}}
			emit(sc)
		}
	}
}

// a long loop THROUGH A SUB-FLOW: the parent visits the same nested flow a few hundred times in one execution
func genSubFlowLoop(r *rng, thorough bool, emit func(FlowScenario)) {
	t := &tokGen{r: r}
	leaf := LeafCfg{Retryable: true, Budget: 1, Fb: "pass", PrepS: "direct", ExecS: "direct", PostS: "direct"}
	for _, n := range []int{130, 320} {
		a, b := leaf, leaf
		sc := FlowScenario{Kind: "canceled", Ctx0: "live", LeafScripts: []LeafScript{}, BatchScripts: []BatchScript{}}
		// 0 = A (inside the sub-flow S = 2), 1 = B, 3 = parent: S -again-> S, S -out-> B
		sc.Nodes = []NodeDef{{ID: 0, Leaf: &a}, {ID: 1, Leaf: &b},
			{ID: 2, Flow: &FlowDef{Start: ip(0), Ops: []Conn{}}},
			{ID: 3, Flow: &FlowDef{Start: ip(2), Ops: []Conn{{Src: 2, Action: "again", Dst: ip(2)}, {Src: 2, Action: "out", Dst: ip(1)}}}}}
		t.next, t.errN = r.intn(30), 0
		loop := t.leafScript(0, 0, true, 1, 1, true, "=again")
		loop.Prep, loop.Exec = "t1", []string{"t2"}
		exit := t.leafScript(0, n-1, true, 1, 1, true, "=out")
		sc.NodeDefaults = []LeafScript{loop}
		sc.LeafScripts = append(sc.LeafScripts, exit, t.leafScript(1, 0, true, 1, 1, true, "=done"))
		sc.Longest = 3*n + 10
		sc.Steps = []Step{{Run: ip(3)}}
		emit(sc)
	}
	// a sub-flow of two nodes that ENDS THROUGH AN EXPLICIT nil CONNECTION and is entered again by its parent: every entry starts
	// at the sub-flow's start node (not where the last one ended)
	for _, n := range []int{2, 3, 5} {
		a, a2, b := leaf, leaf, leaf
		sc := FlowScenario{Kind: "canceled", Ctx0: "live", LeafScripts: []LeafScript{}, BatchScripts: []BatchScript{}}
		sc.Nodes = []NodeDef{{ID: 0, Leaf: &a}, {ID: 1, Leaf: &b},
			{ID: 2, Flow: &FlowDef{Start: ip(0), Ops: []Conn{{Src: 0, Action: "next", Dst: ip(4)}, {Src: 4, Action: "again", Dst: nil}, {Src: 4, Action: "out", Dst: nil}}}},
			{ID: 3, Flow: &FlowDef{Start: ip(2), Ops: []Conn{{Src: 2, Action: "again", Dst: ip(2)}, {Src: 2, Action: "out", Dst: ip(1)}}}},
			{ID: 4, Leaf: &a2}}
		t.next, t.errN = r.intn(30), 0
		for v := 0; v < n; v++ {
			sc.LeafScripts = append(sc.LeafScripts, t.leafScript(0, v, true, 1, 1, true, "=next"))
			act := "=again"
			if v == n-1 {
				act = "=out"
			}
			sc.LeafScripts = append(sc.LeafScripts, t.leafScript(4, v, true, 1, 1, true, act))
		}
		sc.LeafScripts = append(sc.LeafScripts, t.leafScript(1, 0, true, 1, 1, true, "=done"))
		sc.Steps = []Step{{Run: ip(3)}}
		emit(sc)
	}
}
