package main

// Scenario generator for family "config" (C19).
//
// Alphabet: plain node builder   8 settings x {opt, bld}                         = 16 letters
//           batch node builder   4 scalar settings x {opt, bld} + prep/exec/post in builder form = 11 letters
// quick:    every sequence of length 0..3 over both alphabets (4 369 + 1 464), 300 + 300 random sequences
//           of length 4..6, worker pools of size -3..6
// thorough: every sequence of length 0..4 (69 905 + 16 105), 12 000 + 6 000 random of length 5..6
// The values of the settings are drawn from the seed such that two steps of one scenario that set the
// same parameter never carry the same value (for the two-valued error handling: first != last), so
// first-wins, last-wins and "dropped" are always distinguishable.

type cfgLetter struct {
	s    string
	form string
}

func cfgAlphabet(kind string) []cfgLetter {
	var l []cfgLetter
	for _, s := range []string{"retries", "wait", "conc", "eh"} {
		l = append(l, cfgLetter{s, "opt"}, cfgLetter{s, "bld"})
	}
	if kind == "node" {
		for _, s := range []string{"prep", "exec", "post", "fb"} {
			l = append(l, cfgLetter{s, "opt"}, cfgLetter{s, "bld"})
		}
	} else {
		for _, s := range []string{"prep", "exec", "post"} {
			l = append(l, cfgLetter{s, "bld"})
		}
	}
	return l
}

func (r *rng) perm(vals []int) []int {
	out := append([]int(nil), vals...)
	for i := len(out) - 1; i > 0; i-- {
		j := r.intn(i + 1)
		out[i], out[j] = out[j], out[i]
	}
	return out
}

// cfgFill turns a word over the alphabet into a scenario, drawing the values.
func cfgFill(r *rng, kind string, word []cfgLetter) CfgScenario {
	retries := r.perm([]int{1, 2, 3, 4, 5, 6, 0, -1}) // includes budgets < 1: both forms must store them alike
	waits := r.perm([]int{0, 1000, 2000, 3000, 4000, 5000, 7000})
	concs := r.perm([]int{-2, -1, 0, 1, 2, 3, 4})
	nEh := 0
	for _, l := range word {
		if l.s == "eh" {
			nEh++
		}
	}
	firstEh := r.chance(50)
	seenEh := 0
	sc := CfgScenario{Kind: kind, Steps: []CfgStep{}}
	ri, wi, ci := 0, 0, 0
	for i, l := range word {
		st := CfgStep{S: l.s, Form: l.form, Tag: i}
		switch l.s {
		case "retries":
			st.N = retries[ri]
			ri++
		case "wait":
			st.N = waits[wi]
			wi++
		case "conc":
			st.N = concs[ci]
			ci++
		case "eh":
			seenEh++
			switch {
			case seenEh == 1:
				st.B = firstEh
			case seenEh == nEh:
				st.B = !firstEh
			default:
				st.B = r.chance(50)
			}
		case "prep", "post":
			if kind == "node" {
				st.B = r.chance(50)
			}
		case "exec":
			st.B = r.chance(50)
		}
		if l.form == "opt" && (l.s == "retries" || l.s == "wait" || l.s == "conc" || l.s == "eh") {
			st.Raw = r.chance(25)
		}
		sc.Steps = append(sc.Steps, st)
	}
	return sc
}

func genConfig(r *rng, thorough bool, emit func(CfgScenario)) {
	maxLen, nRandNode, nRandBatch, minRand := 3, 300, 300, 4
	if thorough {
		maxLen, nRandNode, nRandBatch, minRand = 4, 12000, 6000, 5
	}
	for _, kind := range []string{"node", "batch"} {
		alpha := cfgAlphabet(kind)
		var rec func(word []cfgLetter)
		rec = func(word []cfgLetter) {
			emit(cfgFill(r, kind, word))
			if len(word) == maxLen {
				return
			}
			for _, l := range alpha {
				rec(append(word[:len(word):len(word)], l))
			}
		}
		rec(nil)
		n := nRandNode
		if kind == "batch" {
			n = nRandBatch
		}
		for i := 0; i < n; i++ {
			ln := minRand + r.intn(7-minRand)
			word := make([]cfgLetter, ln)
			for j := range word {
				word[j] = alpha[r.intn(len(alpha))]
			}
			emit(cfgFill(r, kind, word))
		}
	}
	for k := -3; k <= 6; k++ {
		emit(CfgScenario{Kind: "pool", Steps: []CfgStep{}, Pool: k})
	}
}
