package main

// Family "config" (property C19): configuring a node through constructor options, through chained
// builder methods, or any mixture of both.
//
// A scenario is a sequence of (setting, form). The option-form steps become the argument list of
// flyt.NewNode / flyt.NewBatchNode (in their relative order), the builder-form steps are chained on
// the result (each call on the value the previous call returned, as user code does). Observed:
//
//	g     the four getters right after configuration
//	runA  flyt.Run on the node as configured: which installed functions ran (each function records
//	      the tag of the step that installed it), how many exec calls, the outcome
//	runB  flyt.Run after the harness chained its own probe functions in builder form (node: an exec
//	      function that always fails => the exec call count IS the retry budget, the fallback
//	      shows; batch: a prep function returning three items and an exec function failing on every
//	      attempt of item 0 => per-item exec counts show the budget and stop/continue)
//	hwm   batch only: a third run whose items meet at a barrier: `width` items must be in flight
//	      together (watchdog), and no more (short grace period; can only miss, never false-alarm)
//	g2    the four getters after the probe functions were chained (unrelated builder calls)
//
// A "pool" scenario measures flyt.NewWorkerPool(k) the same way.

import (
	"context"
	"errors"
	"runtime"
	"sync"
	"sync/atomic"
	"time"

	"github.com/mark3labs/flyt"
)

type CfgStep struct {
	S    string `json:"s"`    // retries | wait | conc | eh | prep | exec | post | fb
	Form string `json:"form"` // opt | bld
	N    int    `json:"n"`    // value of retries / wait (ns) / conc
	B    bool   `json:"b"`    // eh: continueOnError; function settings: Any-style setter
	Tag  int    `json:"tag"`  // identifies the function a function setting installs
	Raw  bool   `json:"raw"`  // option passed as a bare func(*flyt.BaseNode) instead of flyt.NodeOption
}

type CfgScenario struct {
	Kind  string    `json:"kind"` // node | batch | pool
	Steps []CfgStep `json:"steps"`
	Pool  int       `json:"pool"`
}

type CfgGetters struct {
	Retries int    `json:"retries"`
	Wait    int64  `json:"wait"`
	Conc    int    `json:"conc"`
	Eh      string `json:"eh"`
}

type CfgRun struct {
	Prep  *int   `json:"prep"`
	Exec  *int   `json:"exec"`
	Fb    *int   `json:"fb"`
	Post  *int   `json:"post"`
	Calls []int  `json:"calls"`
	Out   string `json:"out"`
}

type CfgObs struct {
	G    CfgGetters `json:"g"`
	RunA CfgRun     `json:"runA"`
	RunB CfgRun     `json:"runB"`
	Hwm  int        `json:"hwm"`
	G2   CfgGetters `json:"g2"`
	Err  string     `json:"err"`
}

type CfgPoolObs struct {
	Hwm int    `json:"hwm"`
	Err string `json:"err"`
}

const (
	cfgProbeExec = 900
	cfgProbePrep = 901
	cfgRunLimit  = 20 * time.Second
	cfgGrace     = 300 * time.Microsecond
)

// After the first barrier watchdog has fired (only possible when the implementation does not reach
// the prescribed width) later barriers give up quickly, so that a broken tree is reported in
// seconds instead of hours.
var cfgBarrierFired atomic.Bool

func cfgBarrierLimit() time.Duration {
	if cfgBarrierFired.Load() {
		return 30 * time.Millisecond
	}
	return 3 * time.Second
}

var errCfgProbe = errors.New("probe exec fails")

// ---------------------------------------------------------------- recording

const (
	rolePrep = iota
	roleExec
	roleFb
	rolePost
)

type cfgRec struct {
	mu     sync.Mutex
	tags   [4]map[int]int // role -> tag -> number of calls
	nItems int            // batch: items the prep function returned (-1: plain node)
	item   map[int]int    // exec calls per item (plain node: item 0)
}

func newCfgRec(batch bool) *cfgRec {
	r := &cfgRec{item: map[int]int{}}
	for i := range r.tags {
		r.tags[i] = map[int]int{}
	}
	if !batch {
		r.nItems = -1
	}
	return r
}

func (r *cfgRec) rec(role, tag, item int) {
	r.mu.Lock()
	r.tags[role][tag]++
	if role == roleExec {
		if r.nItems < 0 {
			item = 0 // plain node: one "item"
		}
		r.item[item]++
	}
	r.mu.Unlock()
}

func (r *cfgRec) summary(out string) CfgRun {
	r.mu.Lock()
	defer r.mu.Unlock()
	res := CfgRun{Calls: []int{}, Out: out}
	slot := [4]**int{&res.Prep, &res.Exec, &res.Fb, &res.Post}
	for role := 0; role < 4; role++ {
		if len(r.tags[role]) > 1 {
			res.Out = "mixed-functions"
		}
		for tag, n := range r.tags[role] {
			t := tag
			*slot[role] = &t
			if role != roleExec && n != 1 {
				res.Out = "called-twice"
			}
		}
	}
	if r.nItems < 0 {
		res.Calls = []int{r.item[0]}
	} else {
		for i := 0; i < r.nItems; i++ {
			res.Calls = append(res.Calls, r.item[i])
		}
	}
	for i := range r.item {
		if (r.nItems < 0 && i != 0) || (r.nItems >= 0 && (i < 0 || i >= r.nItems)) {
			res.Out = "unknown-item"
		}
	}
	return res
}

// ---------------------------------------------------------------- barrier

type cfgBarrier struct {
	mu       sync.Mutex
	width    int // items that must be in flight together
	entered  int
	inflight int
	hwm      int
	reached  chan struct{} // closed when `width` items have entered
	over     chan struct{} // closed when more than `width` items are in flight
	timedOut bool
}

func newCfgBarrier(width int) *cfgBarrier {
	return &cfgBarrier{width: width, reached: make(chan struct{}), over: make(chan struct{})}
}

// pass is called by every gated item/task: it blocks until `width` of them are in flight.
func (b *cfgBarrier) pass() {
	b.mu.Lock()
	b.entered++
	b.inflight++
	if b.inflight > b.hwm {
		b.hwm = b.inflight
	}
	if b.entered == b.width {
		close(b.reached)
	}
	if b.inflight == b.width+1 {
		select {
		case <-b.over:
		default:
			close(b.over)
		}
	}
	b.mu.Unlock()

	select {
	case <-b.reached:
	case <-time.After(cfgBarrierLimit()):
		cfgBarrierFired.Store(true)
		b.mu.Lock()
		b.timedOut = true
		b.mu.Unlock()
	}
	// grace period: would one more item start although `width` are in flight?
	select {
	case <-b.over:
	case <-time.After(cfgGrace):
	}
	runtime.Gosched()
	b.mu.Lock()
	b.inflight--
	b.mu.Unlock()
}

func (b *cfgBarrier) result() (hwm int, timedOut bool) {
	b.mu.Lock()
	defer b.mu.Unlock()
	return b.hwm, b.timedOut
}

// ---------------------------------------------------------------- environment of one scenario

type cfgEnv struct {
	mu   sync.Mutex
	rec  *cfgRec
	mode string // "A" as configured, "B" failing probe, "C" barrier

	// mode B gating (wide batches only): item 0 is held until all three items have started
	gatedB  bool
	startB  map[int]bool
	allInB  chan struct{}
	heldB   bool
	barrier *cfgBarrier
	nItemsC int
	errNote string
}

func (e *cfgEnv) recorder() *cfgRec {
	e.mu.Lock()
	defer e.mu.Unlock()
	return e.rec
}

func (e *cfgEnv) note(s string) {
	e.mu.Lock()
	if e.errNote == "" {
		e.errNote = s
	}
	e.mu.Unlock()
}

func (e *cfgEnv) setPhase(mode string, batch bool) *cfgRec {
	e.mu.Lock()
	defer e.mu.Unlock()
	e.mode = mode
	e.rec = newCfgRec(batch)
	return e.rec
}

func itemIndex(v any) int {
	if r, ok := v.(flyt.Result); ok {
		v = r.Value()
	}
	if i, ok := v.(int); ok {
		return i
	}
	return -1
}

// user functions installed by the scenario's steps: record the tag, succeed.

func (e *cfgEnv) prepRes(tag int) func(context.Context, *flyt.SharedStore) (flyt.Result, error) {
	return func(context.Context, *flyt.SharedStore) (flyt.Result, error) {
		e.recorder().rec(rolePrep, tag, 0)
		return flyt.NewResult(0), nil
	}
}
func (e *cfgEnv) prepAny(tag int) func(context.Context, *flyt.SharedStore) (any, error) {
	return func(context.Context, *flyt.SharedStore) (any, error) {
		e.recorder().rec(rolePrep, tag, 0)
		return 0, nil
	}
}
func (e *cfgEnv) execRes(tag int) func(context.Context, flyt.Result) (flyt.Result, error) {
	return func(_ context.Context, p flyt.Result) (flyt.Result, error) {
		e.recorder().rec(roleExec, tag, itemIndex(p))
		return flyt.NewResult(1), nil
	}
}
func (e *cfgEnv) execAny(tag int) func(context.Context, any) (any, error) {
	return func(_ context.Context, p any) (any, error) {
		e.recorder().rec(roleExec, tag, itemIndex(p))
		return 1, nil
	}
}
func (e *cfgEnv) postRes(tag int) func(context.Context, *flyt.SharedStore, flyt.Result, flyt.Result) (flyt.Action, error) {
	return func(context.Context, *flyt.SharedStore, flyt.Result, flyt.Result) (flyt.Action, error) {
		e.recorder().rec(rolePost, tag, 0)
		return "done", nil
	}
}
func (e *cfgEnv) postAny(tag int) func(context.Context, *flyt.SharedStore, any, any) (flyt.Action, error) {
	return func(context.Context, *flyt.SharedStore, any, any) (flyt.Action, error) {
		e.recorder().rec(rolePost, tag, 0)
		return "done", nil
	}
}

// a fallback function installed by a step with an ODD tag fails (after recording that it ran), one with an even tag
// recovers: a fallback that was replaced by a later setting must neither run nor rescue the run
var errCfgFallback = errors.New("fallback of an odd-tagged step fails")

func (e *cfgEnv) fallback(tag int) func(any, error) (any, error) {
	return func(any, error) (any, error) {
		e.recorder().rec(roleFb, tag, 0)
		if tag%2 == 1 {
			return nil, errCfgFallback
		}
		return 2, nil
	}
}
func (e *cfgEnv) batchPrep(tag int) func(context.Context, *flyt.SharedStore) ([]flyt.Result, error) {
	return func(context.Context, *flyt.SharedStore) ([]flyt.Result, error) {
		r := e.recorder()
		r.rec(rolePrep, tag, 0)
		r.mu.Lock()
		r.nItems = 3
		r.mu.Unlock()
		return []flyt.Result{flyt.NewResult(0), flyt.NewResult(1), flyt.NewResult(2)}, nil
	}
}
func (e *cfgEnv) batchPost(tag int) func(context.Context, *flyt.SharedStore, []flyt.Result, []flyt.Result) (flyt.Action, error) {
	return func(context.Context, *flyt.SharedStore, []flyt.Result, []flyt.Result) (flyt.Action, error) {
		e.recorder().rec(rolePost, tag, 0)
		return "done", nil
	}
}

// the harness's probe functions

func (e *cfgEnv) probeExecNode() func(context.Context, flyt.Result) (flyt.Result, error) {
	return func(context.Context, flyt.Result) (flyt.Result, error) {
		e.recorder().rec(roleExec, cfgProbeExec, 0)
		return flyt.Result{}, errCfgProbe
	}
}

func (e *cfgEnv) probePrepBatch() func(context.Context, *flyt.SharedStore) ([]flyt.Result, error) {
	return func(context.Context, *flyt.SharedStore) ([]flyt.Result, error) {
		r := e.recorder()
		r.rec(rolePrep, cfgProbePrep, 0)
		e.mu.Lock()
		n := 3
		if e.mode == "C" {
			n = e.nItemsC
		}
		e.mu.Unlock()
		r.mu.Lock()
		r.nItems = n
		r.mu.Unlock()
		items := make([]flyt.Result, n)
		for i := range items {
			items[i] = flyt.NewResult(i)
		}
		return items, nil
	}
}

func (e *cfgEnv) probeExecBatch() func(context.Context, flyt.Result) (flyt.Result, error) {
	return func(_ context.Context, p flyt.Result) (flyt.Result, error) {
		idx := itemIndex(p)
		e.mu.Lock()
		mode := e.mode
		bar := e.barrier
		e.mu.Unlock()
		if mode == "C" {
			e.recorder().rec(roleExec, cfgProbeExec, idx)
			bar.pass()
			return flyt.NewResult(idx), nil
		}
		// mode B
		var wait chan struct{}
		e.mu.Lock()
		if e.gatedB {
			if !e.startB[idx] {
				e.startB[idx] = true
				if len(e.startB) == 3 {
					close(e.allInB)
				}
			}
			if idx == 0 && !e.heldB {
				e.heldB = true
				wait = e.allInB
			}
		}
		e.mu.Unlock()
		if wait != nil {
			select {
			case <-wait:
			case <-time.After(cfgBarrierLimit()):
				cfgBarrierFired.Store(true)
				e.note("gate")
			}
		}
		e.recorder().rec(roleExec, cfgProbeExec, idx)
		if idx == 0 {
			return flyt.Result{}, errCfgProbe
		}
		return flyt.NewResult(idx), nil
	}
}

// ---------------------------------------------------------------- applying steps

func cfgNodeOption(st *CfgStep) any {
	var o flyt.NodeOption
	switch st.S {
	case "retries":
		o = flyt.WithMaxRetries(st.N)
	case "wait":
		o = flyt.WithWait(time.Duration(st.N))
	case "conc":
		o = flyt.WithBatchConcurrency(st.N)
	case "eh":
		o = flyt.WithBatchErrorHandling(st.B)
	default:
		return nil
	}
	if st.Raw {
		return (func(*flyt.BaseNode))(o)
	}
	return o
}

func (e *cfgEnv) customOption(st *CfgStep) any {
	switch st.S {
	case "prep":
		if st.B {
			return flyt.WithPrepFuncAny(e.prepAny(st.Tag))
		}
		return flyt.WithPrepFunc(e.prepRes(st.Tag))
	case "exec":
		if st.B {
			return flyt.WithExecFuncAny(e.execAny(st.Tag))
		}
		return flyt.WithExecFunc(e.execRes(st.Tag))
	case "post":
		if st.B {
			return flyt.WithPostFuncAny(e.postAny(st.Tag))
		}
		return flyt.WithPostFunc(e.postRes(st.Tag))
	case "fb":
		return flyt.WithExecFallbackFunc(e.fallback(st.Tag))
	}
	return nil
}

func (e *cfgEnv) nodeBuilderStep(b *flyt.NodeBuilder, st *CfgStep) *flyt.NodeBuilder {
	switch st.S {
	case "retries":
		return b.WithMaxRetries(st.N)
	case "wait":
		return b.WithWait(time.Duration(st.N))
	case "conc":
		return b.WithBatchConcurrency(st.N)
	case "eh":
		return b.WithBatchErrorHandling(st.B)
	case "prep":
		if st.B {
			return b.WithPrepFuncAny(e.prepAny(st.Tag))
		}
		return b.WithPrepFunc(e.prepRes(st.Tag))
	case "exec":
		if st.B {
			return b.WithExecFuncAny(e.execAny(st.Tag))
		}
		return b.WithExecFunc(e.execRes(st.Tag))
	case "post":
		if st.B {
			return b.WithPostFuncAny(e.postAny(st.Tag))
		}
		return b.WithPostFunc(e.postRes(st.Tag))
	case "fb":
		return b.WithExecFallbackFunc(e.fallback(st.Tag))
	}
	panic("config: bad builder step " + st.S)
}

func (e *cfgEnv) batchBuilderStep(b *flyt.BatchNodeBuilder, st *CfgStep) *flyt.BatchNodeBuilder {
	switch st.S {
	case "retries":
		return b.WithMaxRetries(st.N)
	case "wait":
		return b.WithWait(time.Duration(st.N))
	case "conc":
		return b.WithBatchConcurrency(st.N)
	case "eh":
		return b.WithBatchErrorHandling(st.B)
	case "prep":
		if !st.B {
			return b.WithPrepFunc(e.batchPrep(st.Tag))
		}
	case "exec":
		if st.B {
			return b.WithExecFuncAny(e.execAny(st.Tag))
		}
		return b.WithExecFunc(e.execRes(st.Tag))
	case "post":
		if !st.B {
			return b.WithPostFunc(e.batchPost(st.Tag))
		}
	}
	panic("config: step outside the batch builder's domain: " + st.S)
}

type cfgGetterNode interface {
	GetMaxRetries() int
	GetWait() time.Duration
	GetBatchConcurrency() int
	GetBatchErrorHandling() string
}

func cfgGetters(n cfgGetterNode) CfgGetters {
	return CfgGetters{Retries: n.GetMaxRetries(), Wait: int64(n.GetWait()), Conc: n.GetBatchConcurrency(),
		Eh: n.GetBatchErrorHandling()}
}

// cfgRunNode runs flyt.Run under a watchdog; returns the action, "err", "panic" or "timeout".
func cfgRunNode(node flyt.Node) string {
	done := make(chan string, 1)
	go func() {
		defer func() {
			if p := recover(); p != nil {
				done <- "panic"
			}
		}()
		a, err := flyt.Run(context.Background(), node, flyt.NewSharedStore())
		if err != nil {
			done <- "err"
			return
		}
		done <- string(a)
	}()
	select {
	case s := <-done:
		return s
	case <-time.After(cfgRunLimit):
		return "timeout"
	}
}

func splitForms(steps []CfgStep) (opts, blds []*CfgStep) {
	for i := range steps {
		if steps[i].Form == "opt" {
			opts = append(opts, &steps[i])
		} else {
			blds = append(blds, &steps[i])
		}
	}
	return
}

func emptyCfgRun() CfgRun { return CfgRun{Calls: []int{}} }

func execCfgScenario(sc *CfgScenario) (res any) {
	defer func() {
		if p := recover(); p != nil {
			if sc.Kind == "pool" {
				res = CfgPoolObs{Err: "panic"}
			} else {
				res = CfgObs{RunA: emptyCfgRun(), RunB: emptyCfgRun(), Err: "panic"}
			}
		}
	}()
	switch sc.Kind {
	case "node":
		return execCfgNode(sc)
	case "batch":
		return execCfgBatch(sc)
	case "pool":
		return execCfgPool(sc.Pool)
	}
	panic("config: unknown kind " + sc.Kind)
}

func execCfgNode(sc *CfgScenario) CfgObs {
	e := &cfgEnv{}
	e.setPhase("A", false)
	optSteps, bldSteps := splitForms(sc.Steps)
	opts := []any{}
	for _, st := range optSteps {
		if o := cfgNodeOption(st); o != nil {
			opts = append(opts, o)
		} else if o := e.customOption(st); o != nil {
			opts = append(opts, o)
		} else {
			panic("config: bad option step " + st.S)
		}
	}
	nb := flyt.NewNode(opts...)
	for _, st := range bldSteps {
		nb = e.nodeBuilderStep(nb, st)
	}
	obs := CfgObs{}
	obs.G = cfgGetters(nb)

	rec := e.setPhase("A", false)
	obs.RunA = rec.summary(cfgRunNode(nb))

	nb = nb.WithExecFunc(e.probeExecNode())
	obs.G2 = cfgGetters(nb)
	rec = e.setPhase("B", false)
	obs.RunB = rec.summary(cfgRunNode(nb))
	obs.Err = e.errNote
	return obs
}

func execCfgBatch(sc *CfgScenario) CfgObs {
	e := &cfgEnv{}
	e.setPhase("A", true)
	optSteps, bldSteps := splitForms(sc.Steps)
	opts := []any{}
	for _, st := range optSteps {
		if o := cfgNodeOption(st); o != nil {
			opts = append(opts, o)
		} else {
			panic("config: function options are outside the batch builder's domain")
		}
	}
	bb := flyt.NewBatchNode(opts...)
	for _, st := range bldSteps {
		bb = e.batchBuilderStep(bb, st)
	}
	obs := CfgObs{}
	obs.G = cfgGetters(bb)

	rec := e.setPhase("A", true)
	obs.RunA = rec.summary(cfgRunNode(bb))

	bb = bb.WithPrepFunc(e.probePrepBatch()).WithExecFunc(e.probeExecBatch())
	obs.G2 = cfgGetters(bb)
	// the probes are parameterised by what the node itself reports
	width := 1
	if c := bb.GetBatchConcurrency(); c > 0 {
		width = c
	}
	if width > 64 {
		panic("config: concurrency too large for the probe")
	}

	rec = e.setPhase("B", true)
	e.mu.Lock()
	e.gatedB = width >= 2
	e.startB = map[int]bool{}
	e.allInB = make(chan struct{})
	e.heldB = false
	e.mu.Unlock()
	obs.RunB = rec.summary(cfgRunNode(bb))

	e.setPhase("C", true)
	bar := newCfgBarrier(width)
	e.mu.Lock()
	e.barrier = bar
	e.nItemsC = width + 1
	e.mu.Unlock()
	outC := cfgRunNode(bb)
	hwm, timedOut := bar.result()
	obs.Hwm = hwm
	if timedOut {
		e.note("barrier")
	}
	if outC != "done" && outC != "default" {
		e.note("runC:" + outC)
	}
	obs.Err = e.errNote
	return obs
}

func execCfgPool(k int) CfgPoolObs {
	width := k
	if width <= 0 {
		width = 1
	}
	if width > 64 {
		panic("config: pool too large for the probe")
	}
	bar := newCfgBarrier(width)
	done := make(chan string, 1)
	go func() {
		defer func() {
			if p := recover(); p != nil {
				done <- "panic"
			}
		}()
		pool := flyt.NewWorkerPool(k)
		for i := 0; i < width+1; i++ {
			pool.Submit(bar.pass)
		}
		pool.Wait()
		pool.Close()
		done <- ""
	}()
	obs := CfgPoolObs{}
	select {
	case s := <-done:
		obs.Err = s
	case <-time.After(cfgRunLimit):
		obs.Err = "timeout"
	}
	hwm, timedOut := bar.result()
	obs.Hwm = hwm
	if timedOut && obs.Err == "" {
		obs.Err = "barrier"
	}
	return obs
}

// ---------------------------------------------------------------- registration helper

func (j *jobList) addConfig(sc CfgScenario) {
	s := sc
	if s.Steps == nil {
		s.Steps = []CfgStep{}
	}
	j.jobs = append(j.jobs, job{fam: "config", sc: &s, run: func() any { return execCfgScenario(&s) }})
}
